"""Which harness families decide which property, at which tier and bound.

Every entry: filters (substring match on the harness path), props (the properties whose tagged
assertions / built-in checks in these harnesses count), tier (quick entries also run in thorough),
cap (SHIM_CAP = bound of the hash-map model = largest list capacity + 1), mem (GB estimate used by
the scheduler), bounds (human readable, copied into evidence).
"""
ENTRIES = []


def add(filters, props, tier, cap, bounds, mem=2, cfg="nostd", cbmc=(), tmul=1, quick_for=None):
    """quick_for: the properties whose QUICK check runs this entry (default: all of props); the
    thorough tier of every property in props runs it."""
    ENTRIES.append({"filters": list(filters), "props": list(props), "tier": tier, "cap": cap,
                    "bounds": bounds, "mem": mem, "cfg": cfg, "cbmc": list(cbmc), "tmul": tmul,
                    "quick_for": list(quick_for) if quick_for is not None else list(props)})


RAW_STEP = ["C01", "C02", "C03", "C05", "C06", "C12", "C13", "C17"]
RAW_Q = ["h_raw::c0n0::", "h_raw::c1n0::", "h_raw::c1n1::", "h_raw::c2n0::", "h_raw::c2n1::", "h_raw::c2n2::",
         "h_raw::ctor"]
RAW_T = ["h_raw::c3n0::", "h_raw::c3n1::", "h_raw::c3n2::", "h_raw::c3n3::"]
add(RAW_Q, RAW_STEP, "quick", 3,
    "RawLRU<u8,u8>: every state with cap in {0 (after resize(0)),1,2} and len <= cap, one operation of the full "
    "API with symbolic key/value/new capacity (resize argument: full usize range)", quick_for=["C06", "C17"])
add(RAW_T, RAW_STEP, "thorough", 4,
    "RawLRU<u8,u8>: every state with cap = 3 and len <= 3, one operation of the full API", mem=3)

SLRU_STEP = ["C01", "C02", "C03", "C05", "C07", "C12", "C13"]
add(["h_slru::c11", "h_slru::ctor", "h_slru::c22n22", "h_slru::c22n12", "h_slru::c22n21", "h_slru::c12n11::look", "h_slru::c12n12::look",
     "h_slru::c21n11::look", "h_slru::c21n21::look"], SLRU_STEP, "quick", 3,
    "SegmentedCache<u8,u8>: (probationary,protected) caps (1,1) with all 4 occupancies and (2,2) with the three "
    "fullest occupancies; get/get_mut/peek/contains/remove on the asymmetric caps (1,2) and (2,1) with both segments occupied; one operation (Cache trait, put_protected, peek_*/remove_lru_from_*, purge) with symbolic arguments",
    mem=3, quick_for=["C07"])
add(["h_slru::c12", "h_slru::c21", "h_slru::c22"], SLRU_STEP, "thorough", 3,
    "SegmentedCache<u8,u8>: all 25 occupancies of caps in {1,2}x{1,2}; one operation with symbolic arguments", mem=3)

# ---- 2Q ------------------------------------------------------------------------------------
Q2_STEP = ["C01", "C02", "C03", "C05", "C08", "C12", "C13"]


def q2_shapes(size, full_only=False):
    out = []
    for g in range(1, size + 1):
        for nr in range(size + 1):
            for nf in range(size + 1 - nr):
                if full_only and nr + nf < size:
                    continue
                for ng in range(g + 1):
                    out.append("s%dg%dn%d%d%d" % (size, g, nr, nf, ng))
    return out


def fam(mod, shapes, kinds):
    return ["h_%s::%s::%s" % (mod, s, k) for s in shapes for k in kinds]


Q2_KINDS = ["look", "put", "bulk"]
add(fam("2q", q2_shapes(1), Q2_KINDS) + fam("2q", ["s2g1n200", "s2g1n111", "s2g2n022", "s2g2n112"], ["look", "put"]),
    Q2_STEP, "quick", 3,
    "TwoQueueCache<u8,u8>: size 1 (all 6 occupancies) and four full-cache occupancies of size 2; quota symbolic in "
    "0..=size (enumerated where it steers control), ghost bound 1..=size; one operation; keys by pattern enumeration",
    mem=4, quick_for=["C08"])
add(fam("2q", q2_shapes(2), Q2_KINDS), Q2_STEP, "thorough", 3,
    "TwoQueueCache<u8,u8>: size 2, all 30 (ghost bound, occupancy) shapes; one operation; keys by pattern enumeration", mem=4)
add(fam("2q", ["s3g3n300", "s3g3n213", "s3g3n122", "s3g3n033", "s3g3n211", "s3g1n301", "s3g1n121", "s3g2n032"], ["put"]),
    Q2_STEP, "thorough", 4,
    "TwoQueueCache<u8,u8>: size 3, eight full-cache occupancies across ghost bounds 1..3, put", mem=6, tmul=2)
add(fam("2q", q2_shapes(1), ["symkeys_put", "symkeys_look"]), Q2_STEP + ["C17"], "thorough", 3,
    "TwoQueueCache<u8,u8>: size 1 with symbolic pairwise-distinct keys (cross-check of the pattern enumeration)", mem=8)

# ---- ARC -----------------------------------------------------------------------------------
ARC_STEP = ["C01", "C02", "C03", "C05", "C09", "C12", "C13"]


def arc_shapes(size, pred=lambda a, b, c, d: True):
    out = []
    for a in range(size + 1):
        for b in range(size + 1 - a):
            for c in range(size + 1):
                for d in range(size + 1):
                    if pred(a, b, c, d):
                        out.append("s%dn%d%d%d%d" % (size, a, b, c, d))
    return out


add(fam("arc", arc_shapes(1), ["look", "put"]) + ["h_arc::ctor", "h_arc::s1n1011::bulk", "h_arc::s1n0111::bulk"],
    ARC_STEP, "quick", 3,
    "AdaptiveCache<u8,u8>: size 1, all 12 occupancies; p symbolic in 0..=size (enumerated where it steers control); "
    "one operation; keys by pattern enumeration", mem=3, quick_for=["C09"])
add(fam("arc", ["s2n2011", "s2n1111", "s2n0211"], ["look", "put"]),
    ARC_STEP, "quick", 3,
    "AdaptiveCache<u8,u8>: size 2, full-cache occupancies (2,0,1,1) (1,1,1,1) (0,2,1,1) with look+put; p enumerated 0..=2",
    mem=6, quick_for=["C09"])
add(fam("arc", arc_shapes(1), ["bulk"]), ARC_STEP, "thorough", 3, "AdaptiveCache size 1: purge from all 12 occupancies", mem=3)
add(fam("arc", arc_shapes(2), ["look", "put"]) + fam("arc", ["s2n1122", "s2n2000", "s2n0222"], ["bulk"]), ARC_STEP, "thorough", 3,
    "AdaptiveCache<u8,u8>: size 2, all 54 occupancies; one operation; keys by pattern enumeration", mem=8, tmul=2)
add(fam("arc", ["s1n0000", "s1n1000", "s1n0100", "s1n0010", "s1n0001"], ["symkeys_put", "symkeys_look"]),
    ARC_STEP + ["C17"], "thorough", 3,
    "AdaptiveCache<u8,u8>: size 1, sparse occupancies with symbolic pairwise-distinct keys (cross-check)", mem=10)

# ---- TinyLFU / SampledLFU --------------------------------------------------------------------
add(["h_tlfu::r2l3::"], ["C11", "C05", "C16"], "quick", 3,
    "TinyLFU<u64, identity KeyHasher>, no_std sketch: arbitrary state with 4 counters per row, 512-bit doorkeeper, "
    "1..=3 probes, samples and w full usize range, hashes full u64; one operation; single-key history of 4 operations",
    mem=6, quick_for=["C11"])
add(["h_tlfu::r4l7::compare", "h_tlfu::r4l7::clone_step", "h_tlfu::r4l7::step_try_reset", "h_tlfu::r4l7::step_clear"],
    ["C11", "C05", "C16"], "thorough", 3,
    "TinyLFU: arbitrary state with 8 counters per row, 512-bit doorkeeper, 1..=7 probes: comparisons, clone, try_reset, clear "
    "(the increment / single-key / batch harnesses at this size exceeded 80 CPU-minutes each; they are decided at 4 counters "
    "per row only)", mem=10, tmul=2)
add(["h_sampled::n0::", "h_sampled::n1::", "h_sampled::n2::step", "h_sampled::n2::fill_l1"], ["C20", "C05"], "quick", 4,
    "SampledLFU<u64>: tracker with <= 2 tracked hashes (distinct, symbolic), costs |c| < 2^40, one operation with "
    "symbolic hash/cost; fill_sample with input length <= 2 and every sample size up to len+2", mem=6)
add(["h_sampled::n2::", "h_sampled::n3::"], ["C20", "C05"], "thorough", 4,
    "SampledLFU<u64>: tracker with <= 3 tracked hashes; one operation; fill_sample input length <= 2", mem=8, tmul=2)

# ---- W-TinyLFU ---------------------------------------------------------------------------------
WT_STEP = ["C01", "C02", "C03", "C05", "C10", "C12", "C13"]


def wt_shapes(caps, pred=lambda x, y, z: True):
    a, b, c = caps
    return ["c%d%d%dn%d%d%d" % (a, b, c, x, y, z) for x in range(a + 1) for y in range(b + 1) for z in range(c + 1)
            if pred(x, y, z)]


WT_KINDS = ["put", "get", "peek", "bulk"]
add(fam("wtlfu", wt_shapes((1, 1, 1)), WT_KINDS) + ["h_wtlfu::c111n000::getest"], WT_STEP, "quick", 3,
    "WTinyLFUCache<u8,u8>: (window,probationary,protected) = (1,1,1), all 8 occupancies; real TinyLFU in an arbitrary "
    "state (2 counters/row, 512-bit doorkeeper, 1..=2 probes, symbolic per-key hashes for put and the estimator-effect "
    "harness); one operation; keys by pattern enumeration", mem=6, quick_for=["C10"])
add(fam("wtlfu", ["c211n211", "c211n111", "c211n210", "c121n121", "c121n111", "c121n021", "c112n112", "c112n111", "c112n102"],
        ["put", "get", "peek"]) +
    fam("wtlfu", ["c222n221", "c222n222"], ["put", "peek"]) +
    ["h_wtlfu::c111n100::getest", "h_wtlfu::c111n010::getest", "h_wtlfu::c111n001::getest"],
    WT_STEP, "thorough", 3,
    "WTinyLFUCache<u8,u8>: capacities (2,1,1),(1,2,1),(1,1,2) with three occupancies each (full, one list short) and (2,2,2) "
    "with full segments; estimator effect of get on the three one-entry shapes", mem=8, tmul=2)

# ---- constructors / conversions ------------------------------------------------------------------
add(["h_ctor::raw_all_constructors", "h_ctor::sampled_constructors", "h_ctor::tinylfu_ctor_invalid",
     "h_ctor::tinylfu_ctor_valid_grid", "h_ctor::tinylfu_new_usable", "h_ctor::wtinylfu_ctor_sizes",
     "h_ctor::wtinylfu_ctor_ratios", "h_ctor::wtinylfu_new", "h_ctor::twoq_new_sym", "h_ctor::twoq_with_recent_ratio_sym",
     "h_ctor::twoq_with_ghost_ratio_sym", "h_ctor::twoq_with_2q_parameters_sym", "h_ctor::twoq_builder_sym", "h_ctor::twoq_builder_hashers_sym", "h_ctor::twoq_builder_hashers_late_sym",
     "h_ctor::conv_n0", "h_ctor::conv_n1", "h_ctor::conv_n2"],
    ["C05", "C01", "C08", "C10", "C11", "C20", "C06"], "quick", 4,
    "constructors/builders: RawLRU (all four, cap full usize), SegmentedCache/AdaptiveCache (sizes <= 3), TwoQueueCache "
    "(sizes 1 and 3, ratio = arbitrary f64 bit pattern), TinyLFU::new (size, samples <= 4; invalid class: arbitrary f64; "
    "valid class: ratio grid), WTinyLFUCache (grid of zero/non-zero sizes, ratio grid incl. NaN/inf/out-of-range; "
    "new(size<=400)), SampledLFU (all seven); conversions From<[_;N]>/Vec/&[_]/FromIterator with N <= 2", mem=8,
    quick_for=["C05"])
add(["h_ctor::twoq_with_2q_parameters_sym", "h_ctor::twoq_builder_hashers_sym", "h_ctor::twoq_builder_hashers_late_sym"], ["C08"], "quick", 4,
    "TwoQueueCache::with_2q_parameters and the builder with all six setters (hasher setters before and after the ratio "
    "setters) at sizes 1 and 3 with the recent ratio an arbitrary f64 bit pattern: quota and ghost bound == floor(size x ratio)", mem=8)
add(["h_ctor::wtinylfu_ctor_sizes"], ["C10"], "quick", 4, "WTinyLFUCache::with_sizes over zero/non-zero sizes: capacities as requested", mem=6)
add(["h_ctor::tinylfu_ctor_valid_grid", "h_ctor::tinylfu_new_usable"], ["C11"], "quick", 4,
    "TinyLFU::new(size, samples <= 4, ratio grid): shape of a new estimator; first access on sizes 1..3", mem=6)
add(["h_ctor::twoq_new", "h_ctor::twoq_with_recent_ratio", "h_ctor::twoq_with_ghost_ratio", "h_ctor::twoq_with_2q_parameters",
     "h_ctor::twoq_builder", "h_ctor::twoq_builder_hashers", "h_ctor::twoq_builder_hashers_late", "h_ctor::tinylfu_ctor_valid_symbolic_ratio", "h_ctor::conv_n3"],
    ["C05", "C08", "C11", "C06"], "thorough", 4,
    "TwoQueueCache constructors over the grid sizes {0,1,2,3,7,100} x ratios {0,1,.25,.5,.999,-0,-.5,1.5,NaN,inf}; "
    "TinyLFU::new with a symbolic ratio in [2^-64,1); conversions with N = 3", mem=8, tmul=2)

# ---- clone / callback / PutResult / borrowed keys / ownership / iterators ---------------------------
add(["h_misc::clone_cb::c1n0", "h_misc::clone_cb::c1n1h", "h_misc::clone_cb::c2n2", "h_misc::clone_raw::id_c2n2", "h_misc::clone_raw::id_c3n3", "h_misc::clone_raw::c2n1", "h_misc::clone_raw::c1n0",
     "h_misc::clone_slru_id::c11n11", "h_misc::clone_wt::n100", "h_tlfu::r2l3::clone_step"], ["C16", "C17", "C03"], "quick", 4,
    "clone: RawLRU<u8,u8> cap<=2 (symbolic keys, index iteration order symbolic), WTinyLFUCache (1,1,1) with a symbolic "
    "estimator, TinyLFU arbitrary state; lock-step operation on both, independence, drop of the original", mem=8)
add(["h_misc::clone_cb::c2n0h", "h_misc::clone_cb::c2n1", "h_misc::clone_raw::c2n2", "h_misc::clone_raw::c3n2", "h_misc::clone_raw::id_c3n2", "h_misc::clone_wt::n111",
     "h_misc::clone_slru_id::c22n22"], ["C16", "C17", "C03"], "thorough", 4,
    "clone: RawLRU cap 3 with 2 entries, WTinyLFUCache (1,1,1) all lists occupied", mem=10, tmul=2)
add(["h_misc::cb::c1n1", "h_misc::cb::c2n1", "h_misc::cb::c2n2"], ["C15"], "quick", 4,
    "RawLRU<u8,u8> with a logging callback (both callback constructors), cap <= 2, every occupancy incl. full; one operation of "
    "{put, remove, remove_lru, purge, resize(any usize), get, get_mut, peeks, *_or_put, iteration}; log compared with the "
    "oracle's departures in order", mem=6)
add(["h_misc::cb::c2n2h", "h_misc::cb::c3n3", "h_misc::cb::c3n2"], ["C15"], "thorough", 4,
    "RawLRU with a logging callback, cap 3", mem=8, tmul=2)
add(["h_misc::putresult_structural"], ["C12"], "quick", 4, "PutResult<u8,u8>: two arbitrary values; ==, clone, copy")
add(["h_misc::boxed::"], ["C02", "C03"], "quick", 4,
    "RawLRU<Box<u8>,u8> (heap-owning keys) cap <= 2, lookups through &u8 (Borrow), one operation, cache dropped", mem=6)
add(["h_misc::own::raw_c1n1", "h_misc::own::raw_c2n2", "h_misc::own::raw_c2n1", "h_misc::own::slru_n21", "h_misc::own::twoq"], ["C04", "C03"], "quick", 4,
    "drop-counting tokens as keys and values: RawLRU cap <= 2, SegmentedCache (2,2) with 3 entries, TwoQueueCache size 2 with "
    "full ghost list; one operation (put fresh/resident, remove, get, purge, resize), results dropped, cache dropped; CBMC "
    "memory-leak check on", mem=8, cbmc=["--memory-leak-check"], tmul=2)
add(["h_misc::own::slru_n22", "h_misc::own::arc"], ["C04", "C03"], "thorough", 4,
    "drop-counting tokens: SegmentedCache (2,2) full, AdaptiveCache size 2 with full ghost lists; memory-leak check on",
    mem=10, cbmc=["--memory-leak-check"], tmul=3)
add(["h_iter::n0::", "h_iter::n1::", "h_iter::n2::", "h_iter::twoq_recent", "h_iter::twoq_frequent", "h_iter::twoq_ghost",
     "h_iter::arc_recent", "h_iter::arc_frequent", "h_iter::arc_recent_evict", "h_iter::arc_frequent_evict"], ["C14", "C13"], "quick", 4,
    "all 12 RawLRU iterator kinds on every state with len <= 2 (symbolic keys/values), symbolic interleaving of "
    "next/next_back of length len+2, clone independence, writes through mutable iterators; the 30+40 per-list iterator "
    "accessors of TwoQueueCache / AdaptiveCache on a size-2 state with all lists occupied", mem=4)
add(["h_iter::n3::"], ["C14", "C13"], "thorough", 4, "all 12 RawLRU iterator kinds, len 3", mem=6)
add(["h_tlfu::r2l3::batch"], ["C11"], "quick", 3, "TinyLFU batch increments (2 hashes) == two single increments, arbitrary state", mem=8)


# ---- core subset: what the QUICK checks of the cross-cutting properties run -----------------------
CORE = ["C01", "C02", "C03", "C05", "C12", "C13"]
add(["h_raw::c0n0::", "h_raw::c1n1::", "h_raw::c2n2::", "h_raw::c2n1::put", "h_raw::ctor",
     "h_slru::c11n11::", "h_slru::c22n22::put", "h_slru::c22n12::look", "h_slru::c22n21::putprot", "h_slru::ctor"],
    CORE, "quick", 3,
    "core subset: RawLRU caps 0/1/2 (full and one partly filled occupancy), SegmentedCache (1,1) full and (2,2) fullest "
    "occupancies; one operation each", mem=3)
add(fam("2q", ["s1g1n101", "s1g1n011", "s2g1n111", "s2g1n101"], ["look", "put"]) + ["h_2q::s1g1n101::bulk"] +
    fam("arc", ["s1n1010", "s1n0111", "s2n1111"], ["look", "put"]) + ["h_arc::s1n1011::bulk", "h_arc::ctor"] +
    fam("wtlfu", ["c111n111", "c111n110"], ["put", "peek"]) + ["h_wtlfu::c111n101::get", "h_wtlfu::c111n111::bulk"],
    CORE, "quick", 3,
    "core subset: TwoQueueCache (size 1 two occupancies, size 2 all queues occupied), AdaptiveCache (size 1 two occupancies with "
    "ghosts, size 2 all lists occupied), WTinyLFUCache (1,1,1) full / probationary-full; one operation each; keys by pattern "
    "enumeration", mem=5)

# ---- std configuration: count_min_sketch_std with symbolic seeds -------------------------------------
add(["h_tlfu::r2l3::compare", "h_tlfu::r2l3::step_increment_hashed", "h_tlfu::r2l3::step_try_reset", "h_tlfu::r2l3::step_clear"],
    ["C11", "C05"], "quick", 3,
    "std build (count_min_sketch_std, the four row seeds symbolic): TinyLFU arbitrary state with 4 counters per row, one "
    "operation; comparisons", mem=6, cfg="std")
add(["h_tlfu::r2l3::step_increment", "h_tlfu::r2l3::single_key", "h_tlfu::r2l3::batch", "h_tlfu::r2l3::clone_step",
     "h_tlfu::r4l7::compare"],
    ["C11", "C05", "C16"], "thorough", 3,
    "std build: remaining TinyLFU harnesses at 4 counters per row; comparisons at 8 counters per row",
    mem=10, cfg="std", tmul=2)

# ---- C17 differential family ---------------------------------------------------------------------
add(["h_misc::order::purge_c2n2", "h_misc::order::resize_c2n2"], ["C17"], "quick", 4,
    "two RawLRU<u8,u8> (cap 2, 2 entries, symbolic keys, logging callbacks) built by the same history; purge / resize(any "
    "usize) applied to both under independent index iteration orders: results, states and callback logs equal", mem=6)
add(["h_misc::order::clone_c2n2", "h_misc::order::purge_c3n3", "h_misc::order::resize_c3n3"], ["C17"], "thorough", 4,
    "differential family: clone+put at cap 2; purge / resize at cap 3 with 3 entries", mem=10, tmul=2)
