"""Which harness families decide which property, at which tier and bound.

Every entry: filters (substring match on the harness path), props (the properties whose tagged
assertions / built-in checks in these harnesses count), tier (quick entries also run in thorough),
cap (SHIM_CAP = bound of the hash-map model = largest list capacity + 1), mem (GB estimate used by
the scheduler), bounds (human readable, copied into evidence).
"""
ENTRIES = []


def add(filters, props, tier, cap, bounds, mem=2, cfg="nostd", cbmc=(), tmul=1):
    ENTRIES.append({"filters": list(filters), "props": list(props), "tier": tier, "cap": cap,
                    "bounds": bounds, "mem": mem, "cfg": cfg, "cbmc": list(cbmc), "tmul": tmul})


RAW_STEP = ["C01", "C02", "C03", "C05", "C06", "C12", "C13"]
RAW_Q = ["h_raw::c0n0::", "h_raw::c1n0::", "h_raw::c1n1::", "h_raw::c2n0::", "h_raw::c2n1::", "h_raw::c2n2::",
         "h_raw::ctor"]
RAW_T = ["h_raw::c3n0::", "h_raw::c3n1::", "h_raw::c3n2::", "h_raw::c3n3::"]
add(RAW_Q, RAW_STEP, "quick", 3,
    "RawLRU<u8,u8>: every state with cap in {0 (after resize(0)),1,2} and len <= cap, one operation of the full "
    "API with symbolic key/value/new capacity (resize argument: full usize range)")
add(RAW_T, RAW_STEP, "thorough", 4,
    "RawLRU<u8,u8>: every state with cap = 3 and len <= 3, one operation of the full API", mem=3)

SLRU_STEP = ["C01", "C02", "C03", "C05", "C07", "C12", "C13"]
add(["h_slru::c11", "h_slru::ctor", "h_slru::c22n22", "h_slru::c22n12", "h_slru::c22n21"], SLRU_STEP, "quick", 3,
    "SegmentedCache<u8,u8>: (probationary,protected) caps (1,1) with all 4 occupancies and (2,2) with the three "
    "fullest occupancies; one operation (Cache trait, put_protected, peek_*/remove_lru_from_*, purge) with symbolic arguments",
    mem=3)
add(["h_slru::c12", "h_slru::c21", "h_slru::c22"], SLRU_STEP, "thorough", 3,
    "SegmentedCache<u8,u8>: all 25 occupancies of caps in {1,2}x{1,2}; one operation with symbolic arguments", mem=3)
