//! TinyLFU (C11, C05, C16): the estimator state is fully symbolic (every counter byte, every
//! doorkeeper word, seeds, w, samples, probe count) subject only to the structural facts the
//! constructor establishes; one real operation; ghost-counter invariants from the statement.
use caches::lfu::{KeyHasher, TinyLFU};
use core::borrow::Borrow;
use core::hash::{Hash, Hasher};

/// KeyHasher that hands the u64 key through unchanged, so "key" and "raw hash" coincide and the
/// harness quantifies over every 64-bit hash value.
#[derive(Clone, Copy, Default)]
pub struct IdH;
struct Grab(u64);
impl Hasher for Grab {
    fn finish(&self) -> u64 {
        self.0
    }
    fn write(&mut self, _b: &[u8]) {}
    fn write_u64(&mut self, i: u64) {
        self.0 = i;
    }
}
impl KeyHasher<u64> for IdH {
    fn hash_key<Q>(&self, key: &Q) -> u64
    where
        u64: Borrow<Q>,
        Q: Hash + Eq + ?Sized,
    {
        let mut g = Grab(0);
        key.hash(&mut g);
        g.0
    }
}

pub type Lfu = TinyLFU<u64, IdH>;

/// Row bytes (two 4-bit counters each) and doorkeeper words of the symbolic estimator.
pub const WORDS: usize = 8; // 512 bits: the smallest doorkeeper the constructor ever builds

pub fn any_lfu<const R: usize>(max_locs: u64) -> Lfu {
    let rows: [[u8; R]; 4] = kani::any();
    let bits: [u64; WORDS] = kani::any();
    let seeds: [u64; 4] = kani::any();
    let set_locs: u64 = kani::any();
    // the constructor computes ceil(ln2 * bits / entries) >= 1 probes for every accepted ratio
    kani::assume(set_locs >= 1 && set_locs <= max_locs);
    let elem_num: u64 = kani::any();
    kani::assume(elem_num < (1 << 40));
    let samples: usize = kani::any();
    let w: usize = kani::any();
    kani::assume(samples >= 1 && w < samples);
    TinyLFU::verif_from_raw(
        [rows[0].to_vec(), rows[1].to_vec(), rows[2].to_vec(), rows[3].to_vec()],
        (2 * R as u64) - 1,
        seeds,
        bits.to_vec(),
        9,
        set_locs,
        elem_num,
        samples,
        w,
        IdH,
    )
}

fn sketch_est(t: &Lfu, x: u64) -> u64 {
    t.estimate_hashed_key(x) - (t.contains_hash(x) as u64)
}

fn rows_snapshot<const R: usize>(t: &Lfu) -> [[u8; R]; 4] {
    let mut out = [[0u8; R]; 4];
    let mut i = 0;
    while i < 4 {
        let r = t.verif_row(i);
        let mut j = 0;
        while j < R {
            out[i][j] = r[j];
            j += 1;
        }
        i += 1;
    }
    out
}

fn bits_snapshot(t: &Lfu) -> [u64; WORDS] {
    let mut out = [0u64; WORDS];
    let b = t.verif_bits();
    let mut j = 0;
    while j < WORDS {
        out[j] = b[j];
        j += 1;
    }
    out
}

fn rows_eq<const R: usize>(a: &[[u8; R]; 4], b: &[[u8; R]; 4]) -> bool {
    let mut ok = true;
    let mut i = 0;
    while i < 4 {
        let mut j = 0;
        while j < R {
            ok = ok && a[i][j] == b[i][j];
            j += 1;
        }
        i += 1;
    }
    ok
}

fn bits_eq(a: &[u64; WORDS], b: &[u64; WORDS]) -> bool {
    let mut ok = true;
    let mut j = 0;
    while j < WORDS {
        ok = ok && a[j] == b[j];
        j += 1;
    }
    ok
}

fn seeds_eq(a: [u64; 4], b: [u64; 4]) -> bool {
    a[0] == b[0] && a[1] == b[1] && a[2] == b[2] && a[3] == b[3]
}

/// one operation from an arbitrary state; ghost (d, c) for an arbitrary tracked hash x
fn step<const R: usize>(max_locs: u64, cop: u8) {
    let mut t = any_lfu::<R>(max_locs);
    let x: u64 = kani::any();
    let mut d: bool = kani::any();
    let mut c: u64 = kani::any();
    kani::assume(c <= 15);
    // the invariant: the estimator never under-counts x
    kani::assume(!d || t.contains_hash(x));
    kani::assume(sketch_est(&t, x) >= c);
    let w0 = t.verif_w();
    let samples = t.verif_samples();
    let rows0 = rows_snapshot::<R>(&t);
    let h: u64 = kani::any();
    let op: u8 = cop;
    let mut recorded = false;
    match op {
        0 => {
            t.increment_hashed_key(h);
            recorded = true;
        }
        1 => {
            t.increment(&h);
            recorded = true;
        }
        2 => t.try_reset(),
        _ => t.clear(),
    }
    let fired = op != 3 && w0 + 1 >= samples;
    // ghost update as the statement prescribes
    if recorded && h == x {
        if !d {
            d = true;
        } else if c < 15 {
            c += 1;
        }
    }
    if fired {
        c /= 2;
        d = false;
    }
    if op == 3 {
        c = 0;
        d = false;
    }
    let rows1 = rows_snapshot::<R>(&t);
    let bits1 = bits_snapshot(&t);
    let mut all_bits_zero = true;
    let mut j = 0;
    while j < WORDS {
        all_bits_zero = all_bits_zero && bits1[j] == 0;
        j += 1;
    }
    // counters: halved on reset, zero on clear, otherwise never decreased
    let mut halved = true;
    let mut zero = true;
    let mut monotone = true;
    let mut i = 0;
    while i < 4 {
        let mut j = 0;
        while j < R {
            let (a, b) = (rows0[i][j], rows1[i][j]);
            zero = zero && b == 0;
            monotone = monotone && (b & 0x0f) >= (a & 0x0f) && (b >> 4) >= (a >> 4);
            // a reset halves the counters as they are after this very access was recorded
            let lo_ok = (b & 0x0f) == (a & 0x0f) / 2 || (recorded && (b & 0x0f) == ((a & 0x0f) + 1) / 2 && (a & 0x0f) < 15);
            let hi_ok = (b >> 4) == (a >> 4) / 2 || (recorded && (b >> 4) == ((a >> 4) + 1) / 2 && (a >> 4) < 15);
            halved = halved && lo_ok && hi_ok;
            j += 1;
        }
        i += 1;
    }
    let est = t.estimate_hashed_key(x);
    let y: u64 = kani::any();
    let sched_ok = if op == 3 {
        t.verif_w() == 0 && all_bits_zero && zero
    } else if fired {
        t.verif_w() == 0 && all_bits_zero && halved
    } else {
        t.verif_w() == w0 + 1 && monotone
    };
    witness!(op < 2, fired && recorded && h == x, "W: the recorded access of x itself triggers the reset");
    witness!(op < 2, !fired && recorded && h == x && c == 15, "W: x counted up to saturation");
    witness!(op < 2, recorded && h != x && !fired, "W: another key recorded");
    witness!(op == 2, !fired, "W: explicit try_reset that does not fire");
    checks! {
        "[C11] estimate(x) never lower than the exact aged count (doorkeeper bit + counter), after the step" => (!d || t.contains_hash(x)) && sketch_est(&t, x) >= c;
        "[C11] no false negatives: a key recorded since the last reset is contained in the doorkeeper" => !(recorded && !fired && h == x) || t.contains_hash(x);
        "[C11] estimate never exceeds 16" => est <= 16 && t.estimate(&x) == est;
        "[C11] reset exactly when recorded accesses + try_reset calls reach the sample size (w, doorkeeper cleared, counters halved); otherwise nothing decreases" => sched_ok;
        "[C11] every estimate is 0 right after clear" => op != 3 || (t.estimate_hashed_key(y) == 0 && !t.contains_hash(y));
        "[C11] contains(key) == contains_hash(hash)" => t.contains(&y) == t.contains_hash(y);
    }
}

/// lt/le/gt/ge/eq order two keys exactly as their estimates do (arbitrary state)
fn compare<const R: usize>(max_locs: u64) {
    let t = any_lfu::<R>(max_locs);
    let a: u64 = kani::any();
    let b: u64 = kani::any();
    let (ea, eb) = (t.estimate(&a), t.estimate(&b));
    witness!(true, ea > eb && !t.contains_hash(b), "W: estimates differ while only one key is in the doorkeeper");
    witness!(true, ea == eb && ea > 0, "W: equal non-zero estimates");
    checks! {
        "[C11] lt(a,b) == (estimate(a) < estimate(b))" => t.lt(&a, &b) == (ea < eb);
        "[C11] le(a,b) == (estimate(a) <= estimate(b))" => t.le(&a, &b) == (ea <= eb);
        "[C11] gt(a,b) == (estimate(a) > estimate(b))" => t.gt(&a, &b) == (ea > eb);
        "[C11] ge(a,b) == (estimate(a) >= estimate(b))" => t.ge(&a, &b) == (ea >= eb);
        "[C11] eq(a,b) == (estimate(a) == estimate(b))" => t.eq(&a, &b) == (ea == eb);
    }
}

/// exact for a single key: from a cleared estimator, a bounded history that only ever records x
fn single_key<const R: usize, const N: usize>(max_locs: u64) {
    let set_locs: u64 = kani::any();
    kani::assume(set_locs >= 1 && set_locs <= max_locs);
    let samples: usize = kani::any();
    kani::assume(samples >= 1);
    let seeds: [u64; 4] = kani::any();
    let mut t: Lfu = TinyLFU::verif_from_raw(
        [[0u8; R].to_vec(), [0u8; R].to_vec(), [0u8; R].to_vec(), [0u8; R].to_vec()],
        (2 * R as u64) - 1,
        seeds,
        [0u64; WORDS].to_vec(),
        9,
        set_locs,
        0,
        samples,
        0,
        IdH,
    );
    let x: u64 = kani::any();
    let mut d = false;
    let mut c = 0u64;
    let mut w = 0usize;
    let mut ok = true;
    let mut i = 0;
    while i < N {
        let inc: bool = kani::any();
        if inc {
            t.increment_hashed_key(x);
            if d {
                if c < 15 {
                    c += 1;
                }
            } else {
                d = true;
            }
        } else {
            t.try_reset();
        }
        w += 1;
        if w >= samples {
            w = 0;
            c /= 2;
            d = false;
        }
        let dk = d as u64;
        ok = ok && t.estimate_hashed_key(x) == c + dk;
        i += 1;
    }
    witness!(true, c >= 1 && d, "W: counted beyond the doorkeeper");
    checks! {
        "[C11] estimate is exact while only one key has ever been recorded" => ok;
    }
}

/// clone is field-wise identical and independent (C16)
fn clone_step<const R: usize>(max_locs: u64) {
    let mut t = any_lfu::<R>(max_locs);
    let mut u = t.clone();
    let same = |a: &Lfu, b: &Lfu| {
        rows_eq::<R>(&rows_snapshot::<R>(a), &rows_snapshot::<R>(b))
            && bits_eq(&bits_snapshot(a), &bits_snapshot(b))
            && a.verif_w() == b.verif_w()
            && a.verif_samples() == b.verif_samples()
            && a.verif_mask() == b.verif_mask()
            && seeds_eq(a.verif_seeds(), b.verif_seeds())
            && a.verif_bloom_params() == b.verif_bloom_params()
    };
    let identical = same(&t, &u);
    let rows_u = rows_snapshot::<R>(&u);
    let bits_u = bits_snapshot(&u);
    let w_u = u.verif_w();
    let h: u64 = kani::any();
    t.increment_hashed_key(h);
    let untouched = rows_eq::<R>(&rows_snapshot::<R>(&u), &rows_u) && bits_eq(&bits_snapshot(&u), &bits_u) && u.verif_w() == w_u;
    u.increment_hashed_key(h);
    let lockstep = same(&t, &u);
    drop(t);
    let alive = u.estimate_hashed_key(h) <= 16;
    checks! {
        "[C16] TinyLFU::clone reproduces counters, doorkeeper, seeds, w and sample size" => identical;
        "[C16] operating on the original leaves the clone untouched" => untouched;
        "[C16] the same operation applied to both keeps them identical" => lockstep;
        "[C16] dropping the original leaves the clone usable" => alive;
    }
}

/// the batch forms are exactly a sequence of single recorded accesses (reset schedule included)
fn batch<const R: usize>(max_locs: u64) {
    let mut t = any_lfu::<R>(max_locs);
    let mut u = t.clone();
    let a: u64 = kani::any();
    let b: u64 = kani::any();
    let hashed: bool = kani::any();
    if hashed {
        t.increment_hashed_keys(&[a, b]);
    } else {
        t.increment_keys(&[&a, &b]);
    }
    u.increment_hashed_key(a);
    u.increment_hashed_key(b);
    let same = rows_eq::<R>(&rows_snapshot::<R>(&t), &rows_snapshot::<R>(&u))
        && bits_eq(&bits_snapshot(&t), &bits_snapshot(&u))
        && t.verif_w() == u.verif_w();
    witness!(true, t.verif_samples() == 1, "W: a reset falls due in the middle of the batch");
    checks! {
        "[C11] increment_keys / increment_hashed_keys record each access exactly like a single increment (resets fall due inside the batch)" => same;
    }
}

macro_rules! tlfu {
    ($name:ident, $r:expr, $locs:expr, $n:expr, $unw:expr) => {
        pub(crate) mod $name {
            #[kani::proof]
            #[kani::unwind($unw)]
            pub(crate) fn step_increment_hashed() {
                super::step::<$r>($locs, 0)
            }
            #[kani::proof]
            #[kani::unwind($unw)]
            pub(crate) fn step_increment() {
                super::step::<$r>($locs, 1)
            }
            #[kani::proof]
            #[kani::unwind($unw)]
            pub(crate) fn step_try_reset() {
                super::step::<$r>($locs, 2)
            }
            #[kani::proof]
            #[kani::unwind($unw)]
            pub(crate) fn step_clear() {
                super::step::<$r>($locs, 3)
            }
            #[kani::proof]
            #[kani::unwind($unw)]
            pub(crate) fn compare() {
                super::compare::<$r>($locs)
            }
            #[kani::proof]
            #[kani::unwind($unw)]
            pub(crate) fn single_key() {
                super::single_key::<$r, $n>($locs)
            }
            #[kani::proof]
            #[kani::unwind($unw)]
            pub(crate) fn batch() {
                super::batch::<$r>($locs)
            }
            #[kani::proof]
            #[kani::unwind($unw)]
            pub(crate) fn clone_step() {
                super::clone_step::<$r>($locs)
            }
        }
    };
}

// 4 counters per row, probes <= 3 ; 8 counters per row, probes <= 7
tlfu!(r2l3, 2, 3, 4, 10);
tlfu!(r4l7, 4, 7, 6, 10);
