//! Kani proof harnesses for al8n/caches-rs (see /verif/DESIGN.md).
#![allow(dead_code)]
#![allow(unused_imports)]
#![allow(clippy::all)]

extern crate alloc;
pub mod model;
#[cfg(kani)]
#[macro_use]
pub mod macros_only;
#[cfg(kani)]
pub mod util;
#[cfg(kani)]
pub mod gen;
#[cfg(kani)]
pub(crate) mod h_raw;
#[cfg(kani)]
pub(crate) mod h_slru;
#[cfg(kani)]
pub(crate) mod h_2q;
#[cfg(kani)]
pub(crate) mod h_arc;
#[cfg(kani)]
pub(crate) mod h_tlfu;
#[cfg(kani)]
pub(crate) mod h_sampled;
#[cfg(kani)]
pub(crate) mod h_wtlfu;
#[cfg(kani)]
pub(crate) mod h_ctor;
#[cfg(kani)]
pub(crate) mod h_misc;
#[cfg(kani)]
pub(crate) mod h_iter;

/// Concrete-playback tests written by the driver when it replays a solver counterexample.
#[cfg(all(kani, test))]
mod playback_gen {
    include!(concat!(env!("CARGO_MANIFEST_DIR"), "/../.work/playback_gen.rs"));
}
