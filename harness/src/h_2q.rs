//! F(TwoQueueCache): one real operation from an arbitrary state of a concrete shape
//! (size, |recent|, |frequent|, |ghost|) with symbolic quota and ghost bound, against TwoQM.
//! Serves C01 C02 C03 C05 C08 C12 C13.
use crate::gen;
use crate::model::*;
use crate::util::*;
use caches::{Cache, TwoQueueCache};
use hashbrown::DefaultHashBuilder;

pub type TwoQ = TwoQueueCache<u8, u8, DefaultHashBuilder, DefaultHashBuilder, DefaultHashBuilder>;

pub const BASES: [u8; 3] = [10, 20, 30];

/// `symk`: symbolic pairwise-distinct keys (cross-check of the parametricity argument) instead of
/// the constants 10.., 20.., 30..
pub fn gen_2q(size: usize, gcap: usize, crs: Option<usize>, nr: usize, nf: usize, ng: usize, symk: bool) -> (TwoQ, TwoQM) {
    // the quota is enumerated concretely where it steers control flow (put), symbolic otherwise
    let rs: usize = match crs {
        Some(x) => x,
        None => kani::any(),
    };
    kani::assume(rs <= size);
    let (r, rm, f, fm, g, gm);
    if symk {
        (r, rm) = gen::part(size, nr, &[]);
        (f, fm) = gen::part(size, nf, &[&rm]);
        (g, gm) = gen::part(gcap, ng, &[&rm, &fm]);
    } else {
        (r, rm) = gen::part_conc(size, nr, BASES[0]);
        (f, fm) = gen::part_conc(size, nf, BASES[1]);
        (g, gm) = gen::part_conc(gcap, ng, BASES[2]);
    }
    (
        TwoQueueCache::verif_from_parts(size, rs, r, f, g),
        TwoQM {
            size,
            rs,
            gcap,
            r: rm,
            f: fm,
            g: gm,
        },
    )
}

pub struct QPost {
    pub audit: bool,
    pub size: bool,
    pub sr: ML,
    pub sf: ML,
    pub sg: ML,
}

pub fn post_2q(c: &TwoQ, m: &TwoQM) -> QPost {
    let (r, f, g) = c.verif_parts();
    let sr = snap(r);
    let sf = snap(f);
    let sg = snap(g);
    let size = sr.n + sf.n <= m.size
        && sg.n <= m.gcap
        && c.len() == sr.n + sf.n
        && c.len() <= c.cap()
        && c.cap() == m.size
        && disjoint(&sr, &sf)
        && disjoint(&sr, &sg)
        && disjoint(&sf, &sg)
        && nodup(&sr)
        && nodup(&sf)
        && nodup(&sg)
        && c.recent_len() == sr.n
        && c.frequent_len() == sf.n
        && c.ghost_len() == sg.n
        && r.cap() == m.size
        && f.cap() == m.size
        && g.cap() == m.gcap
        && c.verif_recent_size() == m.rs
        && c.is_empty() == (sr.n + sf.n + sg.n == 0);
    QPost {
        audit: r.verif_audit() == 0 && f.verif_audit() == 0 && g.verif_audit() == 0,
        size,
        sr,
        sf,
        sg,
    }
}

fn same3(p: &QPost, m: &TwoQM) -> (bool, bool) {
    let keys = p.sr.same_keys(&m.r) && p.sf.same_keys(&m.f) && p.sg.same_keys(&m.g);
    let vals = keys && p.sr.same_vals(&m.r) && p.sf.same_vals(&m.f) && p.sg.same_vals(&m.g);
    (keys, vals)
}

fn step_look(size: usize, gcap: usize, nr: usize, nf: usize, ng: usize) {
    let mut pat = 0;
    while pat <= nr + nf + ng {
        look_one(size, gcap, nr, nf, ng, Some(pat), None);
        pat += 1;
    }
}

fn look_one(size: usize, gcap: usize, nr: usize, nf: usize, ng: usize, pat: Option<usize>, cop: Option<u8>) {
    let (mut c, mut m) = gen_2q(size, gcap, None, nr, nf, ng, pat.is_none());
    let pre = m;
    let k: u8 = match pat {
        Some(p) => gen::pattern_key(p, &[nr, nf, ng], &BASES),
        None => kani::any(),
    };
    let w: u8 = kani::any();
    let write: bool = kani::any();
    let op: u8 = match cop {
        Some(o) => o,
        None => kani::any(),
    };
    kani::assume(op < 6);
    let hit = m.val(k);
    let mut read_only = false;
    // remove on a ghost key may hand back the ghost's value or None (DESIGN 2.5)
    let mut alt: Option<TwoQM> = None;
    let res_ok = match op {
        0 => {
            let r = c.get(&k).copied();
            m.access(k);
            r == hit
        }
        1 => {
            let r = c.get_mut(&k);
            let ok = r.as_deref().copied() == hit;
            m.access(k);
            if write {
                if let Some(x) = r {
                    *x = w;
                    m.f.set_val(k, w);
                }
            }
            ok
        }
        2 => {
            read_only = true;
            c.peek(&k).copied() == hit
        }
        3 => {
            read_only = !write;
            let r = c.peek_mut(&k);
            let ok = r.as_deref().copied() == hit;
            if write {
                if let Some(x) = r {
                    *x = w;
                    m.f.set_val(k, w);
                    m.r.set_val(k, w);
                }
            }
            ok
        }
        4 => {
            read_only = true;
            c.contains(&k) == hit.is_some()
        }
        _ => {
            let r = c.remove(&k);
            if hit.is_some() {
                m.f.remove_key(k);
                m.r.remove_key(k);
                r == hit
            } else if let Some(gv) = m.g.val(k) {
                if r.is_some() {
                    m.g.remove_key(k);
                    r == Some(gv)
                } else {
                    alt = Some(m);
                    true
                }
            } else {
                r.is_none()
            }
        }
    };
    let _ = alt;
    let p = post_2q(&c, &m);
    let (keys, vals) = same3(&p, &m);
    witness!(nr >= 1, op == 0 && pre.r.has(k), "W: get moves a recent entry to the frequent queue");
    witness!(nf >= 2, op == 0 && pre.f.has(k) && pre.f.k[0] != k, "W: get refreshes a frequent entry");
    witness!(ng >= 1, pre.g.has(k) && op == 0, "W: get on a ghost key (miss)");
    witness!(ng >= 1, pre.g.has(k) && op == 5, "W: remove on a ghost key");
    checks! {
        "[C02] lookup result equals the value last stored for the key (ghost keys are not resident)" => res_ok;
        "[C03] list/index audit of the three queues after a lookup step" => p.audit;
        "[C01] recent+frequent <= size, ghost <= bound, key-disjoint queues, len()/is_empty()" => p.size;
        "[C08] queue orders after get/get_mut/remove (second access moves recent -> frequent MRU)" => read_only || keys;
        "[C02] stored values after the step" => read_only || vals;
        "[C13] read-only operation left the three queues unchanged" => !read_only || (keys && vals);
    }
    core::mem::forget(c);
}

fn step_put(size: usize, gcap: usize, nr: usize, nf: usize, ng: usize) {
    let mut rs = 0;
    while rs <= size {
        let mut pat = 0;
        while pat <= nr + nf + ng {
            // the quota only matters when a victim has to be chosen (cache full, key not resident)
            if rs == 0 || (nr + nf >= size && pat >= nr + nf) {
                put_one(size, gcap, nr, nf, ng, Some(pat), Some(rs));
            }
            pat += 1;
        }
        rs += 1;
    }
}

fn put_one(size: usize, gcap: usize, nr: usize, nf: usize, ng: usize, pat: Option<usize>, crs: Option<usize>) {
    let (mut c, m) = gen_2q(size, gcap, crs, nr, nf, ng, pat.is_none());
    let pre = m;
    let k: u8 = match pat {
        Some(p) => gen::pattern_key(p, &[nr, nf, ng], &BASES),
        None => kani::any(),
    };
    let v: u8 = kani::any();
    let r = c.put(k, v);
    let mut ma = m;
    let ra = ma.put(k, v, false);
    let mut mb = m;
    let rb = mb.put(k, v, true);
    let p = post_2q(&c, &ma);
    let (ka, va) = same3(&p, &ma);
    let (kb, vb) = same3(&p, &mb);
    let a_ok = pr_eq(&r, &ra) && ka;
    let b_ok = pr_eq(&r, &rb) && kb;
    let vals_ok = (a_ok && va) || (b_ok && vb);
    // C12 stated on the retained sets (resident + ghost), independent of the policy oracle
    let q: u8 = kani::any();
    let was = pre.retained(q);
    let is = p.sr.has(q) || p.sf.has(q) || p.sg.has(q);
    let reported = match r {
        caches::PutResult::Evicted { key, .. } => Some(key),
        caches::PutResult::EvictedAndUpdate { evicted, .. } => Some(evicted.0),
        _ => None,
    };
    let delta_ok = is == ((was || q == k) && reported != Some(q));
    let old = match pre.val(k) {
        Some(x) => Some(x),
        None => pre.g.val(k),
    };
    let pre_val = |key: u8| match pre.val(key) {
        Some(x) => Some(x),
        None => pre.g.val(key),
    };
    let variant_ok = match r {
        caches::PutResult::Put => old.is_none(),
        caches::PutResult::Update(o) => old == Some(o),
        caches::PutResult::Evicted { key, value } => old.is_none() && key != k && pre_val(key) == Some(value),
        caches::PutResult::EvictedAndUpdate { evicted, update } => {
            old == Some(update) && evicted.0 != k && pre_val(evicted.0) == Some(evicted.1)
        }
    };
    let resident_ok = (p.sr.val(k) == Some(v)) != (p.sf.val(k) == Some(v)) && !p.sg.has(k);
    let full = nr + nf >= size;
    witness!(full && nr > 0, !pre.retained(k) && pre.r.n >= pre.rs, "W: new key, cache full, victim from recent");
    witness!(full && nf > 0, !pre.retained(k) && pre.r.n < pre.rs, "W: new key, cache full, victim from frequent");
    witness!(full && nr == 0, !pre.retained(k) && pre.rs == 0, "W: new key, cache full, quota 0 and recent empty (fallback)");
    witness!(ng >= 1 && full, pre.g.has(k), "W: ghost hit while the cache is full");
    witness!(ng >= 1 && full && nf == 0, pre.g.has(k) && pre.rs == size, "W: ghost hit, quota == size, frequent empty (fallback)");
    witness!(ng >= 1 && full && ng == gcap, pre.g.has(k) && pre.g.k[pre.g.n - 1] == k, "W: ghost list evicts the very key being revived");
    witness!(ng >= 1 && !full, pre.g.has(k), "W: ghost hit with room");
    witness!(nr >= 1, pre.r.has(k), "W: put on a recent key promotes it");
    witness!(full && ng >= 1 && ng == gcap, !pre.retained(k), "W: ghost overflow drops the ghost LRU (Evicted)");
    checks! {
        "[C08][C12] put: result and queue contents equal the 2Q oracle (victim choice, ghosting, revival)" => a_ok || b_ok;
        "[C02] stored values after put" => vals_ok || !(a_ok || b_ok);
        "[C12] PutResult variant/payload is truthful w.r.t. the retained set before the put" => variant_ok;
        "[C12] retained set (resident + ghost) changed by exactly +k -reported" => delta_ok;
        "[C12][C02] after the put the key is resident exactly once with the stored value and is no ghost" => resident_ok;
        "[C03] list/index audit of the three queues after put" => p.audit;
        "[C01] recent+frequent <= size, ghost <= bound, key-disjoint queues, len()/is_empty()" => p.size;
    }
    core::mem::forget(c);
}

fn step_bulk(size: usize, gcap: usize, nr: usize, nf: usize, ng: usize) {
    let (mut c, mut m) = gen_2q(size, gcap, None, nr, nf, ng, false);
    c.purge();
    m.r.clear();
    m.f.clear();
    m.g.clear();
    let p = post_2q(&c, &m);
    let (keys, _) = same3(&p, &m);
    checks! {
        "[C02][C01] purge empties the three queues" => keys;
        "[C03] list/index audit after purge" => p.audit;
        "[C01] size accounting after purge" => p.size;
    }
    core::mem::forget(c);
}

macro_rules! q2_family {
    ($($name:ident: $s:expr, $g:expr, $nr:expr, $nf:expr, $ng:expr;)*) => {
        $(
            pub(crate) mod $name {
                #[kani::proof]
                #[kani::unwind(8)]
                pub(crate) fn look() {
                    super::step_look($s, $g, $nr, $nf, $ng)
                }
                #[kani::proof]
                #[kani::unwind(8)]
                pub(crate) fn put() {
                    super::step_put($s, $g, $nr, $nf, $ng)
                }
                #[kani::proof]
                #[kani::unwind(6)]
                pub(crate) fn symkeys_put() {
                    super::put_one($s, $g, $nr, $nf, $ng, None, None)
                }
                #[kani::proof]
                #[kani::unwind(6)]
                pub(crate) fn symkeys_look() {
                    super::look_one($s, $g, $nr, $nf, $ng, None, None)
                }
                #[kani::proof]
                #[kani::unwind(6)]
                pub(crate) fn bulk() {
                    super::step_bulk($s, $g, $nr, $nf, $ng)
                }
            }
        )*
    };
}

q2_family! {
    s1g1n000: 1, 1, 0, 0, 0;
    s1g1n001: 1, 1, 0, 0, 1;
    s1g1n010: 1, 1, 0, 1, 0;
    s1g1n011: 1, 1, 0, 1, 1;
    s1g1n100: 1, 1, 1, 0, 0;
    s1g1n101: 1, 1, 1, 0, 1;
    s2g1n000: 2, 1, 0, 0, 0;
    s2g1n001: 2, 1, 0, 0, 1;
    s2g1n010: 2, 1, 0, 1, 0;
    s2g1n011: 2, 1, 0, 1, 1;
    s2g1n020: 2, 1, 0, 2, 0;
    s2g1n021: 2, 1, 0, 2, 1;
    s2g1n100: 2, 1, 1, 0, 0;
    s2g1n101: 2, 1, 1, 0, 1;
    s2g1n110: 2, 1, 1, 1, 0;
    s2g1n111: 2, 1, 1, 1, 1;
    s2g1n200: 2, 1, 2, 0, 0;
    s2g1n201: 2, 1, 2, 0, 1;
    s2g2n000: 2, 2, 0, 0, 0;
    s2g2n001: 2, 2, 0, 0, 1;
    s2g2n002: 2, 2, 0, 0, 2;
    s2g2n010: 2, 2, 0, 1, 0;
    s2g2n011: 2, 2, 0, 1, 1;
    s2g2n012: 2, 2, 0, 1, 2;
    s2g2n020: 2, 2, 0, 2, 0;
    s2g2n021: 2, 2, 0, 2, 1;
    s2g2n022: 2, 2, 0, 2, 2;
    s2g2n100: 2, 2, 1, 0, 0;
    s2g2n101: 2, 2, 1, 0, 1;
    s2g2n102: 2, 2, 1, 0, 2;
    s2g2n110: 2, 2, 1, 1, 0;
    s2g2n111: 2, 2, 1, 1, 1;
    s2g2n112: 2, 2, 1, 1, 2;
    s2g2n200: 2, 2, 2, 0, 0;
    s2g2n201: 2, 2, 2, 0, 1;
    s2g2n202: 2, 2, 2, 0, 2;
    s3g1n000: 3, 1, 0, 0, 0;
    s3g1n001: 3, 1, 0, 0, 1;
    s3g1n010: 3, 1, 0, 1, 0;
    s3g1n011: 3, 1, 0, 1, 1;
    s3g1n020: 3, 1, 0, 2, 0;
    s3g1n021: 3, 1, 0, 2, 1;
    s3g1n030: 3, 1, 0, 3, 0;
    s3g1n031: 3, 1, 0, 3, 1;
    s3g1n100: 3, 1, 1, 0, 0;
    s3g1n101: 3, 1, 1, 0, 1;
    s3g1n110: 3, 1, 1, 1, 0;
    s3g1n111: 3, 1, 1, 1, 1;
    s3g1n120: 3, 1, 1, 2, 0;
    s3g1n121: 3, 1, 1, 2, 1;
    s3g1n200: 3, 1, 2, 0, 0;
    s3g1n201: 3, 1, 2, 0, 1;
    s3g1n210: 3, 1, 2, 1, 0;
    s3g1n211: 3, 1, 2, 1, 1;
    s3g1n300: 3, 1, 3, 0, 0;
    s3g1n301: 3, 1, 3, 0, 1;
    s3g2n000: 3, 2, 0, 0, 0;
    s3g2n001: 3, 2, 0, 0, 1;
    s3g2n002: 3, 2, 0, 0, 2;
    s3g2n010: 3, 2, 0, 1, 0;
    s3g2n011: 3, 2, 0, 1, 1;
    s3g2n012: 3, 2, 0, 1, 2;
    s3g2n020: 3, 2, 0, 2, 0;
    s3g2n021: 3, 2, 0, 2, 1;
    s3g2n022: 3, 2, 0, 2, 2;
    s3g2n030: 3, 2, 0, 3, 0;
    s3g2n031: 3, 2, 0, 3, 1;
    s3g2n032: 3, 2, 0, 3, 2;
    s3g2n100: 3, 2, 1, 0, 0;
    s3g2n101: 3, 2, 1, 0, 1;
    s3g2n102: 3, 2, 1, 0, 2;
    s3g2n110: 3, 2, 1, 1, 0;
    s3g2n111: 3, 2, 1, 1, 1;
    s3g2n112: 3, 2, 1, 1, 2;
    s3g2n120: 3, 2, 1, 2, 0;
    s3g2n121: 3, 2, 1, 2, 1;
    s3g2n122: 3, 2, 1, 2, 2;
    s3g2n200: 3, 2, 2, 0, 0;
    s3g2n201: 3, 2, 2, 0, 1;
    s3g2n202: 3, 2, 2, 0, 2;
    s3g2n210: 3, 2, 2, 1, 0;
    s3g2n211: 3, 2, 2, 1, 1;
    s3g2n212: 3, 2, 2, 1, 2;
    s3g2n300: 3, 2, 3, 0, 0;
    s3g2n301: 3, 2, 3, 0, 1;
    s3g2n302: 3, 2, 3, 0, 2;
    s3g3n000: 3, 3, 0, 0, 0;
    s3g3n001: 3, 3, 0, 0, 1;
    s3g3n002: 3, 3, 0, 0, 2;
    s3g3n003: 3, 3, 0, 0, 3;
    s3g3n010: 3, 3, 0, 1, 0;
    s3g3n011: 3, 3, 0, 1, 1;
    s3g3n012: 3, 3, 0, 1, 2;
    s3g3n013: 3, 3, 0, 1, 3;
    s3g3n020: 3, 3, 0, 2, 0;
    s3g3n021: 3, 3, 0, 2, 1;
    s3g3n022: 3, 3, 0, 2, 2;
    s3g3n023: 3, 3, 0, 2, 3;
    s3g3n030: 3, 3, 0, 3, 0;
    s3g3n031: 3, 3, 0, 3, 1;
    s3g3n032: 3, 3, 0, 3, 2;
    s3g3n033: 3, 3, 0, 3, 3;
    s3g3n100: 3, 3, 1, 0, 0;
    s3g3n101: 3, 3, 1, 0, 1;
    s3g3n102: 3, 3, 1, 0, 2;
    s3g3n103: 3, 3, 1, 0, 3;
    s3g3n110: 3, 3, 1, 1, 0;
    s3g3n111: 3, 3, 1, 1, 1;
    s3g3n112: 3, 3, 1, 1, 2;
    s3g3n113: 3, 3, 1, 1, 3;
    s3g3n120: 3, 3, 1, 2, 0;
    s3g3n121: 3, 3, 1, 2, 1;
    s3g3n122: 3, 3, 1, 2, 2;
    s3g3n123: 3, 3, 1, 2, 3;
    s3g3n200: 3, 3, 2, 0, 0;
    s3g3n201: 3, 3, 2, 0, 1;
    s3g3n202: 3, 3, 2, 0, 2;
    s3g3n203: 3, 3, 2, 0, 3;
    s3g3n210: 3, 3, 2, 1, 0;
    s3g3n211: 3, 3, 2, 1, 1;
    s3g3n212: 3, 3, 2, 1, 2;
    s3g3n213: 3, 3, 2, 1, 3;
    s3g3n300: 3, 3, 3, 0, 0;
    s3g3n301: 3, 3, 3, 0, 1;
    s3g3n302: 3, 3, 3, 0, 2;
    s3g3n303: 3, 3, 3, 0, 3;
}
