//! F(SegmentedCache): one real operation from an arbitrary state of a concrete shape
//! (probationary cap, protected cap, |probationary|, |protected|) against the SlruM oracle.
//! Serves C01 C02 C03 C05 C07 C12 C13.
use crate::gen;
use crate::model::*;
use crate::util::*;
use caches::{Cache, SegmentedCache};
use hashbrown::DefaultHashBuilder;

pub type Slru = SegmentedCache<u8, u8, DefaultHashBuilder, DefaultHashBuilder>;

pub fn gen_slru(pcap: usize, tcap: usize, np: usize, nt: usize) -> (Slru, SlruM) {
    let (p, pm) = gen::part(pcap, np, &[]);
    let (t, tm) = gen::part(tcap, nt, &[&pm]);
    (
        SegmentedCache::verif_from_parts(p, t),
        SlruM {
            pcap,
            tcap,
            p: pm,
            t: tm,
        },
    )
}

pub struct SPost {
    pub audit: bool,
    pub p_keys: bool,
    pub t_keys: bool,
    pub vals: bool,
    pub size: bool,
    pub sp: ML,
    pub st: ML,
}

pub fn post_slru(c: &Slru, m: &SlruM) -> SPost {
    let (p, t) = c.verif_parts();
    let sp = snap(p);
    let st = snap(t);
    let size = c.len() == sp.n + st.n
        && disjoint(&sp, &st)
        && nodup(&sp)
        && nodup(&st)
        && sp.n <= m.pcap
        && st.n <= m.tcap
        && c.len() <= c.cap()
        && c.cap() == m.pcap + m.tcap
        && c.probationary_len() == sp.n
        && c.protected_len() == st.n
        && c.probationary_cap() == m.pcap
        && c.protected_cap() == m.tcap
        && p.cap() == m.pcap
        && t.cap() == m.tcap
        && c.is_empty() == (sp.n + st.n == 0);
    SPost {
        audit: p.verif_audit() == 0 && t.verif_audit() == 0,
        p_keys: sp.same_keys(&m.p),
        t_keys: st.same_keys(&m.t),
        vals: sp.same(&m.p) && st.same(&m.t),
        size,
        sp,
        st,
    }
}

fn step_look(pcap: usize, tcap: usize, np: usize, nt: usize) {
    let (mut c, mut m) = gen_slru(pcap, tcap, np, nt);
    let pre = m;
    let k: u8 = kani::any();
    let w: u8 = kani::any();
    let write: bool = kani::any();
    let op: u8 = kani::any();
    kani::assume(op < 6);
    let hit = m.val(k);
    let mut read_only = false;
    let res_ok = match op {
        0 => {
            let r = c.get(&k).copied();
            m.access(k);
            r == hit
        }
        1 => {
            let r = c.get_mut(&k);
            let ok = r.as_deref().copied() == hit;
            m.access(k);
            if write {
                if let Some(x) = r {
                    *x = w;
                    m.t.set_val(k, w);
                }
            }
            ok
        }
        2 => {
            read_only = true;
            c.peek(&k).copied() == hit
        }
        3 => {
            read_only = !write;
            let r = c.peek_mut(&k);
            let ok = r.as_deref().copied() == hit;
            if write {
                if let Some(x) = r {
                    *x = w;
                    m.t.set_val(k, w);
                    m.p.set_val(k, w);
                }
            }
            ok
        }
        4 => {
            read_only = true;
            c.contains(&k) == hit.is_some()
        }
        _ => {
            let r = c.remove(&k);
            m.remove(k);
            r == hit
        }
    };
    let p = post_slru(&c, &m);
    witness!(np >= 1 && nt == tcap, op == 0 && pre.p.has(k), "W: get promotes a probationary entry while protected is full (demotion)");
    witness!(np >= 1, op == 1 && pre.p.has(k), "W: get_mut promotes a probationary entry");
    witness!(nt >= 2, op == 0 && pre.t.has(k) && pre.t.k[0] != k, "W: hit on protected refreshes");
    witness!(true, hit.is_none(), "W: miss");
    checks! {
        "[C02] lookup result equals the value last stored for the key" => res_ok;
        "[C03] list/index audit of both segments after a lookup step" => p.audit;
        "[C01] segment bounds, key-disjoint segments, len() == resident count" => p.size;
        "[C07] probationary order after get/get_mut/remove (promotion, demotion to MRU)" => read_only || p.p_keys;
        "[C07] protected order after get/get_mut/remove (promotion to MRU, refresh)" => read_only || p.t_keys;
        "[C02] stored values after the step" => read_only || p.vals;
        "[C13] read-only operation left both segments unchanged" => !read_only || (p.p_keys && p.t_keys && p.vals);
    }
    core::mem::forget(c);
}

fn step_put(pcap: usize, tcap: usize, np: usize, nt: usize) {
    let (mut c, mut m) = gen_slru(pcap, tcap, np, nt);
    let pre = m;
    let k: u8 = kani::any();
    let v: u8 = kani::any();
    let hit = m.val(k);
    let r = c.put(k, v);
    let mr = m.put(k, v);
    let res_ok = pr_eq(&r, &mr);
    let p = post_slru(&c, &m);
    // C12 facts stated directly on the retained sets (independent of the policy oracle)
    let q: u8 = kani::any();
    let retained_pre = pre.has(q);
    let retained_post = p.sp.has(q) || p.st.has(q);
    let reported = match r {
        caches::PutResult::Evicted { key, .. } => Some(key),
        caches::PutResult::EvictedAndUpdate { evicted, .. } => Some(evicted.0),
        _ => None,
    };
    let delta_ok = retained_post == ((retained_pre || q == k) && reported != Some(q));
    let variant_ok = match r {
        caches::PutResult::Put => hit.is_none(),
        caches::PutResult::Update(o) => hit == Some(o),
        caches::PutResult::Evicted { key, value } => hit.is_none() && key != k && pre.val(key) == Some(value),
        caches::PutResult::EvictedAndUpdate { evicted, update } => {
            hit == Some(update) && evicted.0 != k && pre.val(evicted.0) == Some(evicted.1)
        }
    };
    let resident_ok = (p.sp.val(k) == Some(v)) != (p.st.val(k) == Some(v));
    witness!(np == pcap, hit.is_none(), "W: new key into a full probationary segment (eviction)");
    witness!(np < pcap, hit.is_none(), "W: new key with room");
    witness!(np >= 1 && nt == tcap, pre.p.has(k), "W: put promotes a probationary entry while protected is full");
    witness!(np >= 1 && nt < tcap, pre.p.has(k), "W: put promotes a probationary entry into free protected space");
    witness!(nt >= 1, pre.t.has(k), "W: put on a protected entry");
    checks! {
        "[C12][C07] PutResult equals the oracle's" => res_ok;
        "[C12] PutResult variant/payload is truthful w.r.t. the retained set before the put" => variant_ok;
        "[C12] retained set changed by exactly +k -reported" => delta_ok;
        "[C12][C02] after the put the key is resident exactly once with the stored value" => resident_ok;
        "[C03] list/index audit of both segments after put" => p.audit;
        "[C01] segment bounds, key-disjoint segments, len() == resident count" => p.size;
        "[C07] probationary order after put (new keys enter here, only its LRU is evicted, demotions arrive at MRU)" => p.p_keys;
        "[C07] protected order after put (promotion to MRU, refresh)" => p.t_keys;
        "[C02] stored values after put" => p.vals;
    }
    core::mem::forget(c);
}

/// put_protected: relational oracle (DESIGN 2.5)
fn step_put_protected(pcap: usize, tcap: usize, np: usize, nt: usize) {
    let (mut c, m) = gen_slru(pcap, tcap, np, nt);
    let pre = m;
    let k: u8 = kani::any();
    let v: u8 = kani::any();
    let hit = pre.val(k);
    let r = c.put_protected(k, v);
    let (lp, lt) = c.verif_parts();
    let sp = snap(lp);
    let st = snap(lt);
    let audit = lp.verif_audit() == 0 && lt.verif_audit() == 0;
    let size = c.len() == sp.n + st.n
        && disjoint(&sp, &st)
        && nodup(&sp)
        && nodup(&st)
        && sp.n <= pcap
        && st.n <= tcap
        && c.probationary_len() == sp.n
        && c.protected_len() == st.n;
    // k sits at the MRU end of protected with the new value and nowhere else
    let placed = st.n >= 1 && st.k[0] == k && st.v[0] == v && !sp.has(k);
    let reported = match r {
        caches::PutResult::Evicted { key, value } => Some((key, value)),
        caches::PutResult::EvictedAndUpdate { evicted, .. } => Some(evicted),
        _ => None,
    };
    // every other entry is retained with its value, or is the (single) reported one
    let q: u8 = kani::any();
    let qv = pre.val(q);
    let q_after = match st.val(q) {
        Some(x) => Some(x),
        None => sp.val(q),
    };
    let others_ok = q == k
        || match qv {
            Some(x) => q_after == Some(x) || reported == Some((q, x)),
            None => q_after.is_none(),
        };
    let reported_ok = match reported {
        None => true,
        Some((ek, ev)) => ek != k && pre.val(ek) == Some(ev) && !sp.has(ek) && !st.has(ek),
    };
    let variant_ok = match r {
        caches::PutResult::Put => hit.is_none(),
        caches::PutResult::Update(o) => hit == Some(o),
        caches::PutResult::Evicted { .. } => hit.is_none(),
        caches::PutResult::EvictedAndUpdate { update, .. } => hit == Some(update),
    };
    // relative order of the surviving old entries is preserved inside each segment
    let mut t_rest = st;
    if t_rest.n >= 1 {
        t_rest.remove_at(0);
    }
    let order_ok = t_rest.is_sublist_of(&pre.t);
    let mut p_old = sp;
    // a demoted entry (old protected LRU) may sit at probationary's MRU end
    let demoted = sp.n >= 1 && pre.t.has(sp.k[0]);
    if demoted {
        p_old.remove_at(0);
    }
    let p_order_ok = p_old.is_sublist_of(&pre.p);
    witness!(np >= 1, pre.p.has(k), "W: put_protected on a probationary-resident key");
    witness!(nt == tcap, hit.is_none(), "W: put_protected of a new key into a full protected segment");
    witness!(nt >= 1, pre.t.has(k), "W: put_protected on a protected key");
    checks! {
        "[C07][C01] put_protected leaves the key at the MRU end of protected and nowhere else" => placed;
        "[C12] put_protected: every other entry is retained unchanged or is the reported evicted pair" => others_ok && reported_ok;
        "[C12] put_protected: variant truthful (Update/EvictedAndUpdate iff the key was resident, with its old value)" => variant_ok;
        "[C07] put_protected keeps the relative order of the surviving entries" => order_ok && p_order_ok;
        "[C03] list/index audit of both segments after put_protected" => audit;
        "[C01] segment bounds, key-disjoint segments, len() == resident count" => size;
    }
    core::mem::forget(c);
}

fn step_ends(pcap: usize, tcap: usize, np: usize, nt: usize) {
    let (mut c, mut m) = gen_slru(pcap, tcap, np, nt);
    let w: u8 = kani::any();
    let write: bool = kani::any();
    let op: u8 = kani::any();
    kani::assume(op < 11);
    let mut read_only = true;
    let res_ok = match op {
        0 => kv_eq(c.peek_lru_from_probationary(), m.p.back()),
        1 => kv_eq(c.peek_mru_from_probationary(), m.p.front()),
        2 => kv_eq(c.peek_lru_from_protected(), m.t.back()),
        3 => kv_eq(c.peek_mru_from_protected(), m.t.front()),
        4 => {
            let r = c.peek_lru_mut_from_probationary();
            let e = m.p.back();
            let ok = kvm_match(&r, e);
            if let (true, Some((_, x)), Some((k, _))) = (write, r, e) {
                *x = w;
                m.p.set_val(k, w);
                read_only = false;
            }
            ok
        }
        5 => {
            let r = c.peek_mru_mut_from_probationary();
            let e = m.p.front();
            let ok = kvm_match(&r, e);
            if let (true, Some((_, x)), Some((k, _))) = (write, r, e) {
                *x = w;
                m.p.set_val(k, w);
                read_only = false;
            }
            ok
        }
        6 => {
            let r = c.peek_lru_mut_from_protected();
            let e = m.t.back();
            let ok = kvm_match(&r, e);
            if let (true, Some((_, x)), Some((k, _))) = (write, r, e) {
                *x = w;
                m.t.set_val(k, w);
                read_only = false;
            }
            ok
        }
        7 => {
            let r = c.peek_mru_mut_from_protected();
            let e = m.t.front();
            let ok = kvm_match(&r, e);
            if let (true, Some((_, x)), Some((k, _))) = (write, r, e) {
                *x = w;
                m.t.set_val(k, w);
                read_only = false;
            }
            ok
        }
        8 => {
            read_only = false;
            c.remove_lru_from_probationary() == m.p.pop_back()
        }
        9 => {
            read_only = false;
            c.remove_lru_from_protected() == m.t.pop_back()
        }
        _ => {
            read_only = false;
            c.purge();
            m.p.clear();
            m.t.clear();
            true
        }
    };
    let p = post_slru(&c, &m);
    witness!(np >= 1, op == 8, "W: remove_lru_from_probationary on a non-empty segment");
    witness!(nt >= 1, op == 9, "W: remove_lru_from_protected on a non-empty segment");
    witness!(np + nt >= 1, op == 10, "W: purge of a non-empty cache");
    checks! {
        "[C07] peek_*/remove_lru_from_* name the least/most recent entry of the right segment" => res_ok;
        "[C03] list/index audit of both segments" => p.audit;
        "[C01] segment bounds, key-disjoint segments, len() == resident count" => p.size;
        "[C07] segment orders after remove_lru_from_*/purge" => read_only || (p.p_keys && p.t_keys);
        "[C02] stored values after the step" => read_only || p.vals;
        "[C13] read-only segment accessor left both segments unchanged" => !read_only || (p.p_keys && p.t_keys && p.vals);
    }
    core::mem::forget(c);
}

/// base case: constructor / builder with symbolic sizes
#[kani::proof]
#[kani::unwind(6)]
pub(crate) fn ctor() {
    let a: usize = kani::any();
    let b: usize = kani::any();
    kani::assume(a <= 3 && b <= 3);
    let via_builder: bool = kani::any();
    let r = if via_builder {
        caches::SegmentedCacheBuilder::new(a, b).finalize::<u8, u8>()
    } else {
        SegmentedCache::<u8, u8>::new(a, b)
    };
    match r {
        Err(e) => {
            checks! {
                "[C05] SegmentedCache rejects exactly zero sizes with InvalidSize(0)" => (a == 0 || b == 0) && e == caches::lru::CacheError::InvalidSize(0);
            }
        }
        Ok(c) => {
            let (p, t) = c.verif_parts();
            let ok = c.len() == 0 && c.is_empty() && c.cap() == a + b && p.cap() == a && t.cap() == b
                && c.probationary_cap() == a && c.protected_cap() == b
                && p.verif_audit() == 0 && t.verif_audit() == 0 && p.len() == 0 && t.len() == 0;
            checks! {
                "[C05] SegmentedCache accepts all sizes >= 1" => a >= 1 && b >= 1;
                "[C01][C03] a new SegmentedCache is empty, well formed, segment caps as requested" => ok;
            }
            core::mem::forget(c);
        }
    }
}

macro_rules! slru_family {
    ($($name:ident: $pc:expr, $tc:expr, $np:expr, $nt:expr;)*) => {
        $(
            pub(crate) mod $name {
                #[kani::proof]
                #[kani::unwind(6)]
                pub(crate) fn look() {
                    super::step_look($pc, $tc, $np, $nt)
                }
                #[kani::proof]
                #[kani::unwind(6)]
                pub(crate) fn put() {
                    super::step_put($pc, $tc, $np, $nt)
                }
                #[kani::proof]
                #[kani::unwind(6)]
                pub(crate) fn putprot() {
                    super::step_put_protected($pc, $tc, $np, $nt)
                }
                #[kani::proof]
                #[kani::unwind(6)]
                pub(crate) fn ends() {
                    super::step_ends($pc, $tc, $np, $nt)
                }
            }
        )*
    };
}

slru_family! {
    c11n00: 1, 1, 0, 0;
    c11n10: 1, 1, 1, 0;
    c11n01: 1, 1, 0, 1;
    c11n11: 1, 1, 1, 1;
    c12n00: 1, 2, 0, 0;
    c12n10: 1, 2, 1, 0;
    c12n01: 1, 2, 0, 1;
    c12n11: 1, 2, 1, 1;
    c12n02: 1, 2, 0, 2;
    c12n12: 1, 2, 1, 2;
    c21n00: 2, 1, 0, 0;
    c21n10: 2, 1, 1, 0;
    c21n20: 2, 1, 2, 0;
    c21n01: 2, 1, 0, 1;
    c21n11: 2, 1, 1, 1;
    c21n21: 2, 1, 2, 1;
    c22n00: 2, 2, 0, 0;
    c22n10: 2, 2, 1, 0;
    c22n20: 2, 2, 2, 0;
    c22n01: 2, 2, 0, 1;
    c22n11: 2, 2, 1, 1;
    c22n21: 2, 2, 2, 1;
    c22n02: 2, 2, 0, 2;
    c22n12: 2, 2, 1, 2;
    c22n22: 2, 2, 2, 2;
}
