//! SampledLFU cost accounting (C20, C05): tracker with n <= 3 tracked hashes built through the
//! public API, one real operation, exact ghost accounting.
use crate::h_tlfu::IdH;
use caches::lfu::SampledLFU;
use hashbrown::DefaultHashBuilder;

pub type Slfu = SampledLFU<u64, IdH, DefaultHashBuilder>;
const B: i64 = 1 << 40;

#[derive(Clone, Copy)]
struct Ghost {
    k: [u64; 4],
    c: [i64; 4],
    n: usize,
}
impl Ghost {
    fn find(&self, h: u64) -> Option<usize> {
        let mut i = 0;
        while i < 4 {
            if i < self.n && self.k[i] == h {
                return Some(i);
            }
            i += 1;
        }
        None
    }
    fn cost(&self, h: u64) -> Option<i64> {
        self.find(h).map(|i| self.c[i])
    }
    fn sum(&self) -> i64 {
        let mut s = 0;
        let mut i = 0;
        while i < 4 {
            if i < self.n {
                s += self.c[i];
            }
            i += 1;
        }
        s
    }
    fn set(&mut self, h: u64, c: i64) {
        match self.find(h) {
            Some(i) => self.c[i] = c,
            None => {
                self.k[self.n] = h;
                self.c[self.n] = c;
                self.n += 1;
            }
        }
    }
    fn del(&mut self, h: u64) {
        if let Some(i) = self.find(h) {
            self.n -= 1;
            self.k[i] = self.k[self.n];
            self.c[i] = self.c[self.n];
        }
    }
}

fn any_cost() -> i64 {
    let c: i64 = kani::any();
    kani::assume(c > -B && c < B);
    c
}

fn gen(n: usize) -> (Slfu, Ghost, i64) {
    let mc = any_cost();
    let samples: usize = kani::any();
    let mut t: Slfu = SampledLFU::with_samples_and_key_hasher_and_hasher(mc, samples, IdH, DefaultHashBuilder::default());
    let mut g = Ghost { k: [0; 4], c: [0; 4], n: 0 };
    let mut i = 0;
    while i < n {
        let h: u64 = kani::any();
        kani::assume(g.find(h).is_none());
        let c = any_cost();
        t.increment_hashed_key(h, c);
        g.set(h, c);
        i += 1;
    }
    (t, g, mc)
}

fn step(n: usize) {
    let (mut t, mut g, mut mc) = gen(n);
    let h: u64 = kani::any();
    let c = any_cost();
    let op: u8 = kani::any();
    kani::assume(op < 8);
    let tracked = g.cost(h);
    let res_ok = match op {
        0 => {
            t.increment_hashed_key(h, c);
            g.set(h, c);
            true
        }
        1 => {
            t.increment(&h, c);
            g.set(h, c);
            true
        }
        2 => {
            let r = t.update_hashed_key(h, c);
            if tracked.is_some() {
                g.set(h, c);
            }
            r == tracked.is_some()
        }
        3 => {
            let r = t.update(&h, c);
            if tracked.is_some() {
                g.set(h, c);
            }
            r == tracked.is_some()
        }
        4 => {
            let r = t.remove_hashed_key(h);
            g.del(h);
            r == tracked
        }
        5 => {
            let r = t.remove(&h);
            g.del(h);
            r == tracked
        }
        6 => {
            t.clear();
            g.n = 0;
            true
        }
        _ => {
            t.update_max_cost(c);
            mc = c;
            t.get_max_cost() == c
        }
    };
    let c2 = any_cost();
    let room_ok = t.room_left(c2) == mc - g.sum() - c2;
    let y: u64 = kani::any();
    let probe_ok = t.remove_hashed_key(y) == g.cost(y);
    witness!(n >= 1, op == 0 && tracked.is_some(), "W: increment on an already tracked key");
    witness!(n >= 1, op == 4 && tracked.is_some(), "W: remove of a tracked key");
    witness!(true, op == 2 && tracked.is_none(), "W: update of an untracked key");
    checks! {
        "[C20] update/remove report exactly whether the key was tracked (and its recorded cost)" => res_ok;
        "[C20] room_left(c) == max_cost - sum(recorded costs) - c" => room_ok;
        "[C20] the recorded cost of an arbitrary key equals the ghost map's" => probe_ok;
    }
    core::mem::forget(t);
}

/// fill_sample with concrete input length and sample size (enumerated), symbolic contents and
/// symbolic index iteration order
fn fill(n: usize, l: usize) {
    let mut samples = 0;
    while samples <= l + n + 1 {
        fill_one(n, l, samples);
        samples += 1;
    }
}

fn fill_one(n: usize, l: usize, samples: usize) {
    let mut t: Slfu = SampledLFU::with_samples_and_key_hasher_and_hasher(0, samples, IdH, DefaultHashBuilder::default());
    let mut g = Ghost { k: [0; 4], c: [0; 4], n: 0 };
    let mut i = 0;
    while i < n {
        let h: u64 = kani::any();
        kani::assume(g.find(h).is_none());
        let c = any_cost();
        t.increment_hashed_key(h, c);
        g.set(h, c);
        i += 1;
    }
    let inp: [(u64, i64); 2] = kani::any();
    let mut v = alloc::vec::Vec::with_capacity(8);
    let mut i = 0;
    while i < l {
        v.push(inp[i]);
        i += 1;
    }
    let out = t.fill_sample(v);
    let want_len = if l >= samples { l } else if l + n < samples { l + n } else { samples };
    let mut ok = out.len() == want_len;
    let mut i = 0;
    while i < 6 {
        if i < out.len() {
            if i < l {
                ok = ok && out[i].0 == inp[i].0 && out[i].1 == inp[i].1;
            } else {
                // genuinely tracked, with its recorded cost, and not repeated
                ok = ok && g.cost(out[i].0) == Some(out[i].1);
                let mut j = l;
                while j < i {
                    ok = ok && out[j].0 != out[i].0;
                    j += 1;
                }
            }
        }
        i += 1;
    }
    witness!(n >= 2 && l == 1, samples == 2, "W: the sample is cut off before all tracked keys are used");
    witness!(n >= 1 && l == 0, samples > n, "W: all tracked keys appended");
    checks! {
        "[C20] fill_sample returns its input followed only by distinct, genuinely tracked (key, cost) pairs until the sample size is reached" => ok;
    }
    core::mem::forget(t);
    core::mem::forget(out);
}

macro_rules! sampled {
    ($($name:ident: $n:expr;)*) => {
        $(
            pub(crate) mod $name {
                #[kani::proof]
                #[kani::unwind(8)]
                pub(crate) fn step() {
                    super::step($n)
                }
                #[kani::proof]
                #[kani::unwind(9)]
                pub(crate) fn fill_l0() {
                    super::fill($n, 0)
                }
                #[kani::proof]
                #[kani::unwind(9)]
                pub(crate) fn fill_l1() {
                    super::fill($n, 1)
                }
                #[kani::proof]
                #[kani::unwind(9)]
                pub(crate) fn fill_l2() {
                    super::fill($n, 2)
                }
            }
        )*
    };
}

sampled! {
    n0: 0;
    n1: 1;
    n2: 2;
    n3: 3;
}
