//! clone (C16, C17), eviction callback (C15), PutResult structure (C12), borrowed-key lookups
//! (C02), ownership / drop accounting (C04, C03).
use crate::gen;
use crate::model::*;
use crate::util::*;
use caches::{Cache, DefaultEvictCallback, OnEvictCallback, PutResult, RawLRU, ResizableCache, SegmentedCache};
use hashbrown::DefaultHashBuilder as H;

// ---------------------------------------------------------------------------------------------
// C16 / C17: clone

/// RawLRU::clone from an arbitrary state (symbolic keys), index iteration order symbolic.
fn raw_clone(cap: usize, n: usize) {
    let (mut c, mut m) = gen::raw(cap, n);
    let mut d = c.clone();
    let s0 = snap(&d);
    let identical = s0.same(&m.l) && d.cap() == c.cap() && d.len() == c.len() && d.verif_audit() == 0 && c.verif_audit() == 0;
    // same operation on both: identical results and states
    let k: u8 = kani::any();
    let v: u8 = kani::any();
    let r1 = c.put(k, v);
    let r2 = d.put(k, v);
    let mr = m.put(k, v);
    let lockstep = pr_eq(&r1, &mr) && pr_eq(&r2, &mr) && snap(&c).same(&m.l) && snap(&d).same(&m.l);
    // independence: a further operation on the original leaves the clone alone
    let k2: u8 = kani::any();
    let before = snap(&d);
    let _ = c.remove(&k2);
    let _ = c.put(k2, v);
    let untouched = snap(&d).same(&before) && d.verif_audit() == 0;
    drop(c);
    let alive = snap(&d).same(&before) && d.verif_audit() == 0 && d.peek(&k).copied() == Some(v);
    witness!(n >= 2, m.l.n >= 2, "W: clone of a list with at least two entries (order matters)");
    checks! {
        "[C16][C17] RawLRU::clone has the same capacity, contents, values and recency order for every index iteration order" => identical;
        "[C16] the same operation applied to original and clone gives identical results and states" => lockstep;
        "[C16] operations on the original never affect the clone" => untouched;
        "[C16][C03] dropping the original leaves the clone intact and well formed" => alive;
    }
    drop(d);
}

/// C16: the clone of a RawLRU built with an eviction callback carries the callback: after the
/// clone, one symbolic put and a purge on the clone report exactly the entries that leave it
/// (the original stays silent).  Covers the empty state (n = 0) as well.
fn clone_cb(cap: usize, n: usize, with_hasher: bool) {
    let mut c: RawLRU<u8, u8, LogCb, H> = if with_hasher {
        RawLRU::with_on_evict_cb_and_hasher(cap, LogCb, H::default()).unwrap()
    } else {
        RawLRU::with_on_evict_cb(cap, LogCb).unwrap()
    };
    let l = gen::fill(&mut c, n, &[]);
    let mut m = LruM { cap, l };
    let mut d = c.clone();
    unsafe {
        LOG_N = 0;
    }
    let k: u8 = kani::any();
    let v: u8 = kani::any();
    let mut exp = ML::new();
    let r = d.put(k, v);
    let mr = m.put(k, v);
    if let MPut::Evicted(ek, ev) = mr {
        exp.push_back(ek, ev);
    }
    let res_ok = pr_eq(&r, &mr);
    d.purge();
    let mut i = 0;
    while i < MAXN {
        if let Some((a, b)) = m.l.pop_back() {
            exp.push_back(a, b);
        }
        i += 1;
    }
    let log_ok = log_is(&exp);
    witness!(true, exp.n >= 1, "W: at least one entry leaves the clone");
    witness!(n == cap, exp.n == n + 1, "W: capacity eviction in the clone");
    checks! {
        "[C16] a put on the clone returns what the same put on the original would" => res_ok;
        "[C16][C15] the clone carries the eviction callback: every entry leaving the clone is reported exactly once, in order" => log_ok;
    }
    core::mem::forget(c);
    core::mem::forget(d);
}

/// RawLRU::clone, identity only (cheap): same abstraction for every index iteration order
fn raw_clone_id(cap: usize, n: usize) {
    let (c, m) = gen::raw(cap, n);
    let d = c.clone();
    let s0 = snap(&d);
    let identical = s0.same(&m.l) && d.cap() == c.cap() && d.len() == c.len() && d.verif_audit() == 0 && c.verif_audit() == 0;
    let unchanged = snap(&c).same(&m.l);
    witness!(n >= 2, m.l.n >= 2, "W: clone of a list with at least two entries (order matters)");
    checks! {
        "[C16][C17] RawLRU::clone has the same capacity, contents, values and recency order for every index iteration order" => identical;
        "[C16][C13] cloning leaves the original unchanged" => unchanged;
    }
    drop(c);
    drop(d);
}

/// SegmentedCache::clone (symbolic keys)
fn slru_clone(pc: usize, tc: usize, np: usize, nt: usize) {
    let (mut c, mut m) = crate::h_slru::gen_slru(pc, tc, np, nt);
    let mut d = c.clone();
    let p0 = crate::h_slru::post_slru(&d, &m);
    let identical = p0.audit && p0.size && p0.p_keys && p0.t_keys && p0.vals && d.cap() == c.cap();
    let k: u8 = kani::any();
    let v: u8 = kani::any();
    let r1 = c.put(k, v);
    let r2 = d.put(k, v);
    let mr = m.put(k, v);
    let pc1 = crate::h_slru::post_slru(&c, &m);
    let pd1 = crate::h_slru::post_slru(&d, &m);
    let lockstep = pr_eq(&r1, &mr) && pr_eq(&r2, &mr) && pc1.p_keys && pc1.t_keys && pc1.vals && pd1.p_keys && pd1.t_keys && pd1.vals;
    c.purge();
    let pd2 = crate::h_slru::post_slru(&d, &m);
    let untouched = pd2.p_keys && pd2.t_keys && pd2.vals && pd2.audit;
    drop(c);
    let pd3 = crate::h_slru::post_slru(&d, &m);
    checks! {
        "[C16][C17] SegmentedCache::clone reproduces both segments (contents, values, order, capacities)" => identical;
        "[C16] the same put applied to original and clone gives identical results and states" => lockstep;
        "[C16] purging the original never affects the clone" => untouched;
        "[C16][C03] dropping the original leaves the clone intact" => pd3.p_keys && pd3.t_keys && pd3.vals && pd3.audit;
    }
    drop(d);
}

/// SegmentedCache::clone, identity only
fn slru_clone_id(pc: usize, tc: usize, np: usize, nt: usize) {
    let (c, m) = crate::h_slru::gen_slru(pc, tc, np, nt);
    let d = c.clone();
    let p0 = crate::h_slru::post_slru(&d, &m);
    let identical = p0.audit && p0.size && p0.p_keys && p0.t_keys && p0.vals && d.cap() == c.cap();
    drop(c);
    let p1 = crate::h_slru::post_slru(&d, &m);
    checks! {
        "[C16][C17] SegmentedCache::clone reproduces both segments (contents, values, order, capacities)" => identical;
        "[C16][C03] dropping the original leaves the clone intact" => p1.audit && p1.p_keys && p1.t_keys && p1.vals;
    }
    drop(d);
}

/// WTinyLFUCache::clone (concrete keys, symbolic estimator)
fn wt_clone(n: [usize; 3]) {
    use crate::h_wtlfu::*;
    let (c, m) = gen_wt([1, 1, 1], n, true);
    let d = c.clone();
    let pd = post_wt(&d, &m);
    let (e1, _, _) = c.verif_parts();
    let (e2, _, _) = d.verif_parts();
    let mut est_same = e1.verif_w() == e2.verif_w() && e1.verif_samples() == e2.verif_samples() && e1.verif_mask() == e2.verif_mask();
    let mut i = 0;
    while i < 4 {
        est_same = est_same && e1.verif_row(i)[0] == e2.verif_row(i)[0] && e1.verif_seeds()[i] == e2.verif_seeds()[i];
        i += 1;
    }
    let mut j = 0;
    while j < 8 {
        est_same = est_same && e1.verif_bits()[j] == e2.verif_bits()[j];
        j += 1;
    }
    let q: u8 = kani::any();
    let same_est_fn = e1.estimate(&q) == e2.estimate(&q);
    let lists = pd.sw.same(&m.w) && pd.sp.same(&m.s.p) && pd.st.same(&m.s.t) && pd.audit && pd.size;
    drop(c);
    let pd2 = post_wt(&d, &m);
    checks! {
        "[C16][C17] WTinyLFUCache::clone reproduces window, both main segments and their orders" => lists;
        "[C16] WTinyLFUCache::clone reproduces the frequency estimator state (counters, doorkeeper, w) and key hashing" => est_same && same_est_fn;
        "[C16][C03] dropping the original leaves the clone intact" => pd2.sw.same(&m.w) && pd2.sp.same(&m.s.p) && pd2.st.same(&m.s.t) && pd2.audit;
    }
    drop(d);
}

// ---------------------------------------------------------------------------------------------
// C15: eviction callback

static mut LOG_K: [u8; 8] = [0; 8];
static mut LOG_V: [u8; 8] = [0; 8];
static mut LOG_N: usize = 0;

#[derive(Clone, Copy)]
struct LogCb;
impl OnEvictCallback for LogCb {
    fn on_evict<K, V>(&self, key: &K, val: &V) {
        // the harness instantiates K = V = u8
        if core::mem::size_of::<K>() == 1 && core::mem::size_of::<V>() == 1 {
            unsafe {
                if LOG_N < 8 {
                    LOG_K[LOG_N] = *(key as *const K as *const u8);
                    LOG_V[LOG_N] = *(val as *const V as *const u8);
                }
                LOG_N += 1;
            }
        }
    }
}

fn log_is(exp: &ML) -> bool {
    unsafe {
        if LOG_N != exp.n {
            return false;
        }
        let mut ok = true;
        let mut i = 0;
        while i < MAXN {
            if i < exp.n && (LOG_K[i] != exp.k[i] || LOG_V[i] != exp.v[i]) {
                ok = false;
            }
            i += 1;
        }
        ok
    }
}

fn cb_step(cap: usize, n: usize, with_hasher: bool) {
    unsafe {
        LOG_N = 0;
    }
    let mut c: RawLRU<u8, u8, LogCb, H> = if with_hasher {
        RawLRU::with_on_evict_cb_and_hasher(cap, LogCb, H::default()).unwrap()
    } else {
        RawLRU::with_on_evict_cb(cap, LogCb).unwrap()
    };
    let l = gen::fill(&mut c, n, &[]);
    let mut m = LruM { cap, l };
    let filled_silently = unsafe { LOG_N == 0 };
    let k: u8 = kani::any();
    let v: u8 = kani::any();
    let newcap: usize = kani::any();
    let op: u8 = kani::any();
    kani::assume(op < 12);
    // entries that leave, in the order they leave
    let mut exp = ML::new();
    match op {
        0 => {
            let _ = c.put(k, v);
            if let MPut::Evicted(ek, ev) = m.put(k, v) {
                exp.push_back(ek, ev);
            }
        }
        1 => {
            let _ = c.remove(&k);
            if let Some(x) = m.l.remove_key(k) {
                exp.push_back(k, x);
            }
        }
        2 => {
            let _ = c.remove_lru();
            if let Some((a, b)) = m.l.pop_back() {
                exp.push_back(a, b);
            }
        }
        3 => {
            c.purge();
            let mut i = 0;
            while i < MAXN {
                if let Some((a, b)) = m.l.pop_back() {
                    exp.push_back(a, b);
                }
                i += 1;
            }
        }
        4 => {
            let _ = c.resize(newcap);
            let mut i = 0;
            while i < MAXN {
                if m.l.n > newcap {
                    if let Some((a, b)) = m.l.pop_back() {
                        exp.push_back(a, b);
                    }
                }
                i += 1;
            }
        }
        5 => {
            let _ = c.get(&k);
        }
        6 => {
            if let Some(x) = c.get_mut(&k) {
                *x = v;
            }
        }
        7 => {
            let _ = c.peek(&k);
            let _ = c.contains(&k);
            let _ = c.peek_lru();
            let _ = c.get_lru();
        }
        8 => {
            let (_, r) = c.peek_or_put(k, v);
            if !m.l.has(k) {
                if let MPut::Evicted(ek, ev) = m.put(k, v) {
                    exp.push_back(ek, ev);
                }
            }
            let _ = r;
        }
        9 => {
            let _ = c.contains_or_put(k, v);
            if !m.l.has(k) {
                if let MPut::Evicted(ek, ev) = m.put(k, v) {
                    exp.push_back(ek, ev);
                }
            }
        }
        10 => {
            let _ = c.peek_mut_or_put(k, v);
            if !m.l.has(k) {
                if let MPut::Evicted(ek, ev) = m.put(k, v) {
                    exp.push_back(ek, ev);
                }
            }
        }
        _ => {
            let _ = c.iter().count();
            let _ = c.len();
        }
    }
    let log_ok = log_is(&exp);
    witness!(n == cap, op == 0 && exp.n == 1, "W: capacity eviction calls the callback");
    witness!(n >= 1, op == 0 && exp.n == 0 && m.l.n == n, "W: update of an existing key (no call)");
    witness!(n >= 2, op == 3, "W: purge of several entries");
    witness!(n >= 2, op == 4 && exp.n == 1, "W: resize discarding one entry");
    checks! {
        "[C15] filling the cache below capacity never calls the callback" => filled_silently;
        "[C15] the callback fires exactly once per departing entry, with its key and current value, in departure order, and never otherwise" => log_ok;
    }
    core::mem::forget(c);
}

// ---------------------------------------------------------------------------------------------
// C17: differential check.  Two caches built by the same history; every index iteration inside the
// library draws its own, independent order (the map model's `pick`), so any result that depends
// on hash-map iteration order (or on the hasher, whose only lawful observable that is) can differ
// between the two runs; allocation addresses differ between the two caches as well.

static mut LOG2_K: [[u8; 8]; 2] = [[0; 8]; 2];
static mut LOG2_V: [[u8; 8]; 2] = [[0; 8]; 2];
static mut LOG2_N: [usize; 2] = [0; 2];

#[derive(Clone, Copy)]
struct LogCb2(usize);
impl OnEvictCallback for LogCb2 {
    fn on_evict<K, V>(&self, key: &K, val: &V) {
        if core::mem::size_of::<K>() == 1 && core::mem::size_of::<V>() == 1 {
            unsafe {
                let i = self.0 & 1;
                if LOG2_N[i] < 8 {
                    LOG2_K[i][LOG2_N[i]] = *(key as *const K as *const u8);
                    LOG2_V[i][LOG2_N[i]] = *(val as *const V as *const u8);
                }
                LOG2_N[i] += 1;
            }
        }
    }
}

fn logs_equal() -> bool {
    unsafe {
        let mut ok = LOG2_N[0] == LOG2_N[1];
        let mut i = 0;
        while i < 8 {
            if i < LOG2_N[0] && (LOG2_K[0][i] != LOG2_K[1][i] || LOG2_V[0][i] != LOG2_V[1][i]) {
                ok = false;
            }
            i += 1;
        }
        ok
    }
}

fn order_diff(cap: usize, n: usize, op: u8) {
    unsafe {
        LOG2_N = [0; 2];
    }
    let mut a: RawLRU<u8, u8, LogCb2, H> = RawLRU::with_on_evict_cb_and_hasher(cap, LogCb2(0), H::default()).unwrap();
    let mut b: RawLRU<u8, u8, LogCb2, H> = RawLRU::with_on_evict_cb_and_hasher(cap, LogCb2(1), H::default()).unwrap();
    let mut m = ML::new();
    let mut i = 0;
    while i < n {
        let k: u8 = kani::any();
        let v: u8 = kani::any();
        kani::assume(!m.has(k));
        let _ = a.put(k, v);
        let _ = b.put(k, v);
        m.push_front(k, v);
        i += 1;
    }
    let k: u8 = kani::any();
    let v: u8 = kani::any();
    let newcap: usize = kani::any();
    let res_same = match op {
        0 => {
            a.purge();
            b.purge();
            true
        }
        1 => a.resize(newcap) == b.resize(newcap),
        2 => {
            // clone each, then compare the clones and what the next eviction from them reports
            let mut ca = a.clone();
            let mut cb = b.clone();
            let same = snap(&ca).same(&snap(&cb));
            let ra = ca.put(k, v);
            let rb = cb.put(k, v);
            let same2 = match (ra, rb) {
                (PutResult::Put, PutResult::Put) => true,
                (PutResult::Update(x), PutResult::Update(y)) => x == y,
                (PutResult::Evicted { key: k1, value: v1 }, PutResult::Evicted { key: k2, value: v2 }) => k1 == k2 && v1 == v2,
                _ => false,
            };
            core::mem::forget(ca);
            core::mem::forget(cb);
            same && same2
        }
        3 => a.remove_lru() == b.remove_lru(),
        4 => {
            let ra = a.put(k, v);
            let rb = b.put(k, v);
            match (ra, rb) {
                (PutResult::Put, PutResult::Put) => true,
                (PutResult::Update(x), PutResult::Update(y)) => x == y,
                (PutResult::Evicted { key: k1, value: v1 }, PutResult::Evicted { key: k2, value: v2 }) => k1 == k2 && v1 == v2,
                _ => false,
            }
        }
        _ => a.remove(&k) == b.remove(&k),
    };
    let state_same = snap(&a).same(&snap(&b)) && a.len() == b.len() && a.cap() == b.cap();
    witness!(n >= 2, true, "W: at least two entries under two independent index orders");
    checks! {
        "[C17] results of the same operation do not depend on index iteration order / allocation addresses" => res_same;
        "[C17] the state after the same operation does not depend on index iteration order / allocation addresses" => state_same;
        "[C17] the sequence of eviction-callback invocations does not depend on index iteration order" => logs_equal();
    }
    core::mem::forget(a);
    core::mem::forget(b);
}

// ---------------------------------------------------------------------------------------------
// C12: PutResult is structural

fn any_pr() -> (PutResult<u8, u8>, u8, [u8; 3]) {
    let tag: u8 = kani::any();
    kani::assume(tag < 4);
    let p: [u8; 3] = kani::any();
    let r = match tag {
        0 => PutResult::Put,
        1 => PutResult::Update(p[0]),
        2 => PutResult::Evicted { key: p[0], value: p[1] },
        _ => PutResult::EvictedAndUpdate { evicted: (p[0], p[1]), update: p[2] },
    };
    (r, tag, p)
}

#[kani::proof]
#[kani::unwind(4)]
pub(crate) fn putresult_structural() {
    let (a, ta, pa) = any_pr();
    let (b, tb, pb) = any_pr();
    let used = |t: u8| match t {
        0 => 0,
        1 => 1,
        2 => 2,
        _ => 3,
    };
    let mut same = ta == tb;
    let mut i = 0;
    while i < 3 {
        if i < used(ta) && pa[i] != pb[i] {
            same = false;
        }
        i += 1;
    }
    let c = a.clone();
    let d = a; // Copy
    checks! {
        "[C12] two PutResults compare equal exactly when they are the same variant with equal payloads" => (a == b) == same && (b == a) == same;
        "[C12] Clone and Copy of a PutResult equal the original" => c == a && d == a && pr_eq(&c, &match ta { 0 => MPut::Put, 1 => MPut::Update(pa[0]), 2 => MPut::Evicted(pa[0], pa[1]), _ => MPut::EvictedAndUpdate(pa[0], pa[1], pa[2]) });
    }
}

// ---------------------------------------------------------------------------------------------
// C02: heap-owning keys looked up through their borrowed form

fn boxed_lookup(cap: usize, n: usize) {
    use alloc::boxed::Box;
    let mut c: RawLRU<Box<u8>, u8> = RawLRU::new(cap).unwrap();
    let mut m = LruM { cap, l: ML::new() };
    let mut i = 0;
    while i < n {
        let k: u8 = kani::any();
        let v: u8 = kani::any();
        kani::assume(!m.l.has(k));
        let _ = c.put(Box::new(k), v);
        m.l.push_front(k, v);
        i += 1;
    }
    let q: u8 = kani::any();
    let hit = m.l.val(q);
    let op: u8 = kani::any();
    kani::assume(op < 6);
    let res_ok = match op {
        0 => {
            m.l.touch(q);
            c.get(&q).copied() == hit
        }
        1 => {
            m.l.touch(q);
            c.get_mut(&q).map(|x| *x) == hit
        }
        2 => c.peek(&q).copied() == hit,
        3 => c.contains(&q) == hit.is_some(),
        4 => {
            m.l.remove_key(q);
            c.remove(&q) == hit
        }
        _ => {
            let v: u8 = kani::any();
            let r = c.put(Box::new(q), v);
            let mr = m.put(q, v);
            match (r, mr) {
                (PutResult::Put, MPut::Put) => true,
                (PutResult::Update(a), MPut::Update(b)) => a == b,
                (PutResult::Evicted { key, value }, MPut::Evicted(a, b)) => *key == a && value == b,
                _ => false,
            }
        }
    };
    // post-state read back through the borrowed form
    let mut back = true;
    let mut j = 0;
    let mut it = c.iter();
    while j < MAXN {
        if j < m.l.n {
            match it.next() {
                Some((k, v)) => back = back && **k == m.l.k[j] && *v == m.l.v[j],
                None => back = false,
            }
        }
        j += 1;
    }
    back = back && c.len() == m.l.n && c.verif_audit() == 0;
    witness!(n >= 1, hit.is_some() && op == 4, "W: remove of a heap-owning key through &u8");
    checks! {
        "[C02] lookups through the borrowed form of a heap-owning key behave exactly like lookups by the owned key" => res_ok;
        "[C02][C03] state after the step (heap-owning keys): order, values, audit" => back;
    }
    drop(c);
}

// ---------------------------------------------------------------------------------------------
// C04 / C03: drop accounting with counting tokens; the cache is dropped at the end and CBMC's
// memory-leak check decides that every heap block was released.

static mut DROPS: [u8; 32] = [0; 32];

pub struct Tok(pub u8);
impl Drop for Tok {
    fn drop(&mut self) {
        unsafe {
            DROPS[(self.0 & 31) as usize] += 1;
        }
    }
}
impl PartialEq for Tok {
    fn eq(&self, o: &Tok) -> bool {
        self.0 == o.0
    }
}
impl Eq for Tok {}
impl core::hash::Hash for Tok {
    fn hash<S: core::hash::Hasher>(&self, s: &mut S) {
        s.write_u8(self.0)
    }
}
impl core::borrow::Borrow<u8> for Tok {
    fn borrow(&self) -> &u8 {
        &self.0
    }
}

fn reset_drops() {
    unsafe {
        let mut i = 0;
        while i < 32 {
            DROPS[i] = 0;
            i += 1;
        }
    }
}
fn drops(id: u8) -> u8 {
    unsafe { DROPS[id as usize] }
}
/// every token id in lo..hi has been dropped exactly once
fn all_once(lo: u8, hi: u8) -> bool {
    let mut ok = true;
    let mut i = lo;
    while i < hi {
        ok = ok && drops(i) == 1;
        i += 1;
    }
    ok
}
fn none_twice() -> bool {
    let mut ok = true;
    let mut i = 0;
    while i < 32 {
        ok = ok && drops(i) <= 1;
        i += 1;
    }
    ok
}

type TL = RawLRU<Tok, Tok, DefaultEvictCallback, H>;

/// keys are tokens base.., values tokens base+8..
fn tok_part(cap: usize, n: usize, base: u8) -> TL {
    let mut c: TL = RawLRU::with_hasher(cap, H::default()).unwrap();
    let mut i = 0;
    while i < n {
        let _ = c.put(Tok(base + i as u8), Tok(base + 8 + i as u8));
        i += 1;
    }
    c
}

fn sink<K, V>(r: PutResult<K, V>) {
    drop(r)
}

/// RawLRU<Tok,Tok>: one operation, results dropped, cache dropped: every token exactly once
fn own_raw(cap: usize, n: usize) {
    reset_drops();
    let mut c = tok_part(cap, n, 0);
    let before_ok = none_twice() && drops(0) == 0 && drops(8) == 0;
    // operation key: an existing one or the fresh token 6 / value token 14
    let pat: u8 = kani::any();
    kani::assume((pat as usize) <= n);
    let kid = if (pat as usize) < n { pat } else { 6 };
    let op: u8 = kani::any();
    kani::assume(op < 6);
    let mut used_fresh_key = false;
    let mut used_fresh_val = false;
    match op {
        0 => {
            used_fresh_key = true;
            used_fresh_val = true;
            sink(c.put(Tok(kid), Tok(14)));
        }
        1 => {
            drop(c.remove(&kid));
        }
        2 => {
            drop(c.remove_lru());
        }
        3 => c.purge(),
        4 => {
            let nc: usize = kani::any();
            let _ = c.resize(nc);
        }
        _ => {
            let _ = c.get(&kid);
        }
    }
    let mid_ok = none_twice();
    // purge releases everything that was retained
    let purge_ok = op != 3 || (all_once(0, n as u8) && all_once(8, 8 + n as u8));
    drop(c);
    let mut end_ok = all_once(0, n as u8) && all_once(8, 8 + n as u8) && none_twice();
    // a fresh key equal to an existing one is a second token with the same id: it is dropped too
    if used_fresh_key && kid == 6 {
        end_ok = end_ok && drops(6) == 1;
    }
    if used_fresh_val {
        end_ok = end_ok && drops(14) == 1;
    }
    witness!(n == cap, op == 0 && kid == 6, "W: put evicting an entry, evicted pair dropped by the caller");
    witness!(n >= 1, op == 0 && kid != 6, "W: update: old value handed back, duplicate key dropped");
    checks! {
        "[C04] nothing is dropped while it is still retained" => before_ok && mid_ok;
        "[C04] purge releases every retained key and value" => purge_ok;
        "[C04] after dropping the results and the cache every key and value has been dropped exactly once" => end_ok || (op == 0 && kid != 6 && {
            // update with an equal key: two tokens share the id of the key: both are dropped (count 2)
            let mut ok = drops(kid) == 2 && drops(14) == 1;
            let mut i = 0u8;
            while (i as usize) < n {
                if i != kid {
                    ok = ok && drops(i) == 1;
                }
                ok = ok && drops(8 + i) == 1;
                i += 1;
            }
            ok
        });
    }
}

/// composite caches over tokens: put of a fresh / resident key, then drop
fn own_slru(np: usize, nt: usize) {
    reset_drops();
    let p = tok_part(2, np, 0);
    let t = tok_part(2, nt, 2);
    let mut c = SegmentedCache::verif_from_parts(p, t);
    let pat: u8 = kani::any();
    kani::assume((pat as usize) <= np + nt);
    let kid = if (pat as usize) < np { pat } else if (pat as usize) < np + nt { 2 + pat - np as u8 } else { 6 };
    let op: u8 = kani::any();
    kani::assume(op < 5);
    match op {
        0 => sink(c.put(Tok(kid), Tok(14))),
        1 => sink(c.put_protected(Tok(kid), Tok(14))),
        2 => drop(c.remove(&kid)),
        3 => {
            let _ = c.get(&kid);
        }
        _ => c.purge(),
    }
    let mid_ok = {
        // the only id that may legitimately reach 2 is a key id that was passed in a second time
        let mut ok = true;
        let mut i = 0u8;
        while i < 32 {
            ok = ok && (drops(i) <= 1 || (i == kid && op <= 1 && kid != 6 && drops(i) == 2));
            i += 1;
        }
        ok
    };
    drop(c);
    let mut end_ok = true;
    let mut i = 0u8;
    while i < 4 {
        let present = (i < 2 && (i as usize) < np) || (i >= 2 && ((i - 2) as usize) < nt);
        if present {
            let want = if i == kid && op <= 1 { 2 } else { 1 };
            end_ok = end_ok && drops(i) == want && drops(8 + i) == 1;
        }
        i += 1;
    }
    if op <= 1 {
        end_ok = end_ok && drops(14) == 1 && (kid != 6 || drops(6) == 1);
    }
    checks! {
        "[C04] SegmentedCache: nothing is dropped twice or while retained" => mid_ok;
        "[C04] SegmentedCache: after dropping results and cache every key and value was dropped exactly once" => end_ok;
    }
}

/// list of tokens: keys ids base.., values ids 16+base..
fn tok_list(cap: usize, n: usize, base: u8) -> TL {
    let mut c: TL = RawLRU::with_hasher(cap, H::default()).unwrap();
    let mut i = 0;
    while i < n {
        let _ = c.put(Tok(base + i as u8), Tok(16 + base + i as u8));
        i += 1;
    }
    c
}

/// after everything was dropped: ids in `present` (bit mask over key ids 0..16) were dropped exactly
/// once (keys and their values), `dup` (a key id passed in a second time) exactly twice
fn final_ok(present: u16, dup: Option<u8>, fresh_key: Option<u8>, fresh_val: Option<u8>) -> bool {
    let mut ok = true;
    let mut i = 0u8;
    while i < 16 {
        if (present >> i) & 1 == 1 {
            let want = if dup == Some(i) { 2 } else { 1 };
            ok = ok && drops(i) == want && drops(16 + i) == 1;
        } else if fresh_key == Some(i) {
            ok = ok && drops(i) == 1;
        } else {
            ok = ok && drops(i) == 0;
        }
        i += 1;
    }
    if let Some(v) = fresh_val {
        ok = ok && drops(v) == 1;
    }
    ok
}

/// TwoQueueCache over tokens, all three queues occupied, ghost list full: put / remove / purge, drop
fn own_2q() {
    reset_drops();
    let rs: usize = kani::any();
    kani::assume(rs <= 2);
    let mut c = caches::TwoQueueCache::verif_from_parts(2, rs, tok_list(2, 1, 0), tok_list(2, 1, 2), tok_list(1, 1, 4));
    let present: u16 = 0b010101;
    let pat: u8 = kani::any();
    kani::assume(pat < 4);
    let kid = [0u8, 2, 4, 9][pat as usize];
    let op: u8 = kani::any();
    kani::assume(op < 4);
    match op {
        0 => sink(c.put(Tok(kid), Tok(31))),
        1 => drop(c.remove(&kid)),
        2 => {
            let _ = c.get(&kid);
        }
        _ => c.purge(),
    }
    let mid_ok = {
        let mut ok = true;
        let mut i = 0u8;
        while i < 32 {
            ok = ok && (drops(i) <= 1 || (op == 0 && i == kid && kid != 9 && drops(i) == 2));
            i += 1;
        }
        ok
    };
    drop(c);
    let end_ok = if op == 0 {
        final_ok(present, if kid != 9 { Some(kid) } else { None }, if kid == 9 { Some(9) } else { None }, Some(31))
    } else {
        final_ok(present, None, None, None)
    };
    witness!(true, op == 0 && kid == 9, "W: new key into a full 2Q cache with a full ghost list (ghost eviction frees a node)");
    checks! {
        "[C04] TwoQueueCache: nothing is dropped twice or while retained" => mid_ok;
        "[C04] TwoQueueCache: after dropping results and cache every key and value was dropped exactly once" => end_ok;
    }
}

/// AdaptiveCache over tokens, full cache, both ghost lists full
fn own_arc() {
    reset_drops();
    let p: usize = kani::any();
    kani::assume(p <= 2);
    let mut c = caches::AdaptiveCache::verif_from_parts(2, p, tok_list(2, 1, 0), tok_list(2, 2, 4), tok_list(2, 1, 2), tok_list(2, 2, 6));
    let present: u16 = 0b11110101;
    let pat: u8 = kani::any();
    kani::assume(pat < 5);
    let kid = [0u8, 2, 4, 6, 9][pat as usize];
    let op: u8 = kani::any();
    kani::assume(op < 4);
    match op {
        0 => sink(c.put(Tok(kid), Tok(31))),
        1 => drop(c.remove(&kid)),
        2 => {
            let _ = c.get(&kid);
        }
        _ => c.purge(),
    }
    let mid_ok = {
        let mut ok = true;
        let mut i = 0u8;
        while i < 32 {
            ok = ok && (drops(i) <= 1 || (op == 0 && i == kid && kid != 9 && drops(i) == 2));
            i += 1;
        }
        ok
    };
    drop(c);
    let end_ok = if op == 0 {
        final_ok(present, if kid != 9 { Some(kid) } else { None }, if kid == 9 { Some(9) } else { None }, Some(31))
    } else {
        final_ok(present, None, None, None)
    };
    witness!(true, op == 0 && kid == 9, "W: new key into a full ARC cache with full ghost lists");
    checks! {
        "[C04] AdaptiveCache: nothing is dropped twice or while retained" => mid_ok;
        "[C04] AdaptiveCache: after dropping results and cache every key and value was dropped exactly once" => end_ok;
    }
}

macro_rules! misc_family {
    () => {
        pub(crate) mod clone_raw {
            #[kani::proof]
            #[kani::unwind(6)]
            pub(crate) fn c2n2() {
                super::raw_clone(2, 2)
            }
            #[kani::proof]
            #[kani::unwind(6)]
            pub(crate) fn c2n1() {
                super::raw_clone(2, 1)
            }
            #[kani::proof]
            #[kani::unwind(6)]
            pub(crate) fn c3n3() {
                super::raw_clone(3, 3)
            }
            #[kani::proof]
            #[kani::unwind(6)]
            pub(crate) fn c3n2() {
                super::raw_clone(3, 2)
            }
            #[kani::proof]
            #[kani::unwind(6)]
            pub(crate) fn c1n0() {
                super::raw_clone(1, 0)
            }
            #[kani::proof]
            #[kani::unwind(6)]
            pub(crate) fn id_c2n2() {
                super::raw_clone_id(2, 2)
            }
            #[kani::proof]
            #[kani::unwind(6)]
            pub(crate) fn id_c3n3() {
                super::raw_clone_id(3, 3)
            }
            #[kani::proof]
            #[kani::unwind(6)]
            pub(crate) fn id_c3n2() {
                super::raw_clone_id(3, 2)
            }
        }
        pub(crate) mod clone_cb {
            #[kani::proof]
            #[kani::unwind(7)]
            pub(crate) fn c1n0() {
                super::clone_cb(1, 0, false)
            }
            #[kani::proof]
            #[kani::unwind(7)]
            pub(crate) fn c2n0h() {
                super::clone_cb(2, 0, true)
            }
            #[kani::proof]
            #[kani::unwind(7)]
            pub(crate) fn c1n1h() {
                super::clone_cb(1, 1, true)
            }
            #[kani::proof]
            #[kani::unwind(7)]
            pub(crate) fn c2n2() {
                super::clone_cb(2, 2, false)
            }
            #[kani::proof]
            #[kani::unwind(7)]
            pub(crate) fn c2n1() {
                super::clone_cb(2, 1, false)
            }
        }
        pub(crate) mod clone_slru_id {
            #[kani::proof]
            #[kani::unwind(6)]
            pub(crate) fn c11n11() {
                super::slru_clone_id(1, 1, 1, 1)
            }
            #[kani::proof]
            #[kani::unwind(6)]
            pub(crate) fn c22n22() {
                super::slru_clone_id(2, 2, 2, 2)
            }
        }
        pub(crate) mod clone_slru {
            #[kani::proof]
            #[kani::unwind(6)]
            pub(crate) fn c11n11() {
                super::slru_clone(1, 1, 1, 1)
            }
            #[kani::proof]
            #[kani::unwind(6)]
            pub(crate) fn c22n21() {
                super::slru_clone(2, 2, 2, 1)
            }
        }
        pub(crate) mod clone_wt {
            #[kani::proof]
            #[kani::unwind(10)]
            pub(crate) fn n111() {
                super::wt_clone([1, 1, 1])
            }
            #[kani::proof]
            #[kani::unwind(10)]
            pub(crate) fn n100() {
                super::wt_clone([1, 0, 0])
            }
        }
        pub(crate) mod order {
            #[kani::proof]
            #[kani::unwind(9)]
            pub(crate) fn purge_c2n2() {
                super::order_diff(2, 2, 0)
            }
            #[kani::proof]
            #[kani::unwind(9)]
            pub(crate) fn resize_c2n2() {
                super::order_diff(2, 2, 1)
            }
            #[kani::proof]
            #[kani::unwind(9)]
            pub(crate) fn clone_c2n2() {
                super::order_diff(2, 2, 2)
            }
            #[kani::proof]
            #[kani::unwind(9)]
            pub(crate) fn purge_c3n3() {
                super::order_diff(3, 3, 0)
            }
            #[kani::proof]
            #[kani::unwind(9)]
            pub(crate) fn resize_c3n3() {
                super::order_diff(3, 3, 1)
            }
        }
        pub(crate) mod cb {
            #[kani::proof]
            #[kani::unwind(6)]
            pub(crate) fn c1n1() {
                super::cb_step(1, 1, false)
            }
            #[kani::proof]
            #[kani::unwind(6)]
            pub(crate) fn c2n1() {
                super::cb_step(2, 1, true)
            }
            #[kani::proof]
            #[kani::unwind(6)]
            pub(crate) fn c2n2() {
                super::cb_step(2, 2, false)
            }
            #[kani::proof]
            #[kani::unwind(6)]
            pub(crate) fn c2n2h() {
                super::cb_step(2, 2, true)
            }
            #[kani::proof]
            #[kani::unwind(6)]
            pub(crate) fn c3n3() {
                super::cb_step(3, 3, true)
            }
            #[kani::proof]
            #[kani::unwind(6)]
            pub(crate) fn c3n2() {
                super::cb_step(3, 2, false)
            }
        }
        pub(crate) mod boxed {
            #[kani::proof]
            #[kani::unwind(6)]
            pub(crate) fn c1n1() {
                super::boxed_lookup(1, 1)
            }
            #[kani::proof]
            #[kani::unwind(6)]
            pub(crate) fn c2n2() {
                super::boxed_lookup(2, 2)
            }
            #[kani::proof]
            #[kani::unwind(6)]
            pub(crate) fn c2n1() {
                super::boxed_lookup(2, 1)
            }
        }
        pub(crate) mod own {
            #[kani::proof]
            #[kani::unwind(33)]
            pub(crate) fn raw_c1n1() {
                super::own_raw(1, 1)
            }
            #[kani::proof]
            #[kani::unwind(33)]
            pub(crate) fn raw_c2n2() {
                super::own_raw(2, 2)
            }
            #[kani::proof]
            #[kani::unwind(33)]
            pub(crate) fn raw_c2n1() {
                super::own_raw(2, 1)
            }
            #[kani::proof]
            #[kani::unwind(33)]
            pub(crate) fn slru_n22() {
                super::own_slru(2, 2)
            }
            #[kani::proof]
            #[kani::unwind(33)]
            pub(crate) fn slru_n21() {
                super::own_slru(2, 1)
            }
            #[kani::proof]
            #[kani::unwind(33)]
            pub(crate) fn twoq() {
                super::own_2q()
            }
            #[kani::proof]
            #[kani::unwind(33)]
            pub(crate) fn arc() {
                super::own_arc()
            }
        }
    };
}
misc_family!();
