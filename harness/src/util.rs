//! Shared helpers: independent tagged assertions, abstraction functions, result comparison.
use crate::model::*;
use caches::{PutResult, RawLRU};
use core::hash::BuildHasher;

/// alpha: contents of a real list in recency order (MRU first), read through `iter()`.
pub fn snap<E, S: BuildHasher>(c: &RawLRU<u8, u8, E, S>) -> ML
where
    E: caches::OnEvictCallback,
{
    let mut m = ML::new();
    let mut it = c.iter();
    let mut i = 0;
    while i < MAXN {
        if let Some((k, v)) = it.next() {
            m.push_back(*k, *v);
        }
        i += 1;
    }
    m
}

/// alpha read through `iter_lru()` (LRU first).
pub fn snap_lru<E, S: BuildHasher>(c: &RawLRU<u8, u8, E, S>) -> ML
where
    E: caches::OnEvictCallback,
{
    let mut m = ML::new();
    let mut it = c.iter_lru();
    let mut i = 0;
    while i < MAXN {
        if let Some((k, v)) = it.next() {
            m.push_back(*k, *v);
        }
        i += 1;
    }
    m
}

pub fn pr_eq(r: &PutResult<u8, u8>, m: &MPut) -> bool {
    match (r, m) {
        (PutResult::Put, MPut::Put) => true,
        (PutResult::Update(a), MPut::Update(b)) => *a == *b,
        (PutResult::Evicted { key, value }, MPut::Evicted(k, v)) => *key == *k && *value == *v,
        (PutResult::EvictedAndUpdate { evicted, update }, MPut::EvictedAndUpdate(k, v, u)) => {
            evicted.0 == *k && evicted.1 == *v && *update == *u
        }
        _ => false,
    }
}

pub fn opt_pr_eq(r: &Option<PutResult<u8, u8>>, m: &Option<MPut>) -> bool {
    match (r, m) {
        (None, None) => true,
        (Some(a), Some(b)) => pr_eq(a, b),
        _ => false,
    }
}

pub fn kv_eq(r: Option<(&u8, &u8)>, m: Option<(u8, u8)>) -> bool {
    match (r, m) {
        (None, None) => true,
        (Some((a, b)), Some((c, d))) => *a == c && *b == d,
        _ => false,
    }
}

pub fn kvm_eq(r: Option<(&u8, &mut u8)>, m: Option<(u8, u8)>) -> bool {
    match (r, m) {
        (None, None) => true,
        (Some((a, b)), Some((c, d))) => *a == c && *b == d,
        _ => false,
    }
}

/// Facts about one real list after a step, compared with the model list.
pub struct Post {
    pub audit: bool,
    pub keys: bool,
    pub vals: bool,
    pub len: bool,
}

pub fn post_list<E, S: BuildHasher>(c: &RawLRU<u8, u8, E, S>, m: &ML) -> Post
where
    E: caches::OnEvictCallback,
{
    use caches::Cache;
    let s = snap(c);
    Post {
        audit: c.verif_audit() == 0,
        keys: s.same_keys(m),
        vals: s.same_keys(m) && s.same_vals(m),
        len: c.len() == m.n && c.is_empty() == (m.n == 0),
    }
}

/// no key occurs in both lists
pub fn disjoint(a: &ML, b: &ML) -> bool {
    let mut ok = true;
    let mut i = 0;
    while i < MAXN {
        if i < a.n && b.has(a.k[i]) {
            ok = false;
        }
        i += 1;
    }
    ok
}

/// no key occurs twice in the list
pub fn nodup(a: &ML) -> bool {
    let mut ok = true;
    let mut i = 0;
    while i < MAXN {
        let mut j = 0;
        while j < MAXN {
            if i < j && j < a.n && a.k[i] == a.k[j] {
                ok = false;
            }
            j += 1;
        }
        i += 1;
    }
    ok
}

pub fn kvm_match(r: &Option<(&u8, &mut u8)>, m: Option<(u8, u8)>) -> bool {
    match (r, m) {
        (None, None) => true,
        (Some((a, b)), Some((x, y))) => **a == x && **b == y,
        _ => false,
    }
}
