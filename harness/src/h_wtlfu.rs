//! F(WTinyLFUCache): one real operation from a state of concrete shape (window / probationary /
//! protected capacities and occupancies) with the REAL TinyLFU inside in an arbitrary symbolic
//! state; the oracle takes the admission verdict from the real estimator (estimate(candidate) <
//! estimate(victim)) evaluated on the pre-state.  Keys by pattern enumeration; the KeyHasher maps
//! each key to an arbitrary symbolic 64-bit hash.  Serves C01 C02 C03 C05 C10 C12 C13.
use crate::gen;
use crate::model::*;
use crate::util::*;
use caches::lfu::{KeyHasher, TinyLFU};
use caches::{Cache, RawLRU, SegmentedCache, WTinyLFUCache};
use core::borrow::Borrow;
use core::hash::{Hash, Hasher};
use hashbrown::DefaultHashBuilder as H;

pub const BASES: [u8; 3] = [10, 20, 30];
const NSLOT: usize = 11;

/// key -> arbitrary (symbolic) hash, through a table indexed by the key's role
#[derive(Clone, Copy)]
pub struct TabH {
    h: [u64; NSLOT],
}
struct Grab8(u8);
impl Hasher for Grab8 {
    fn finish(&self) -> u64 {
        self.0 as u64
    }
    fn write(&mut self, _b: &[u8]) {}
    fn write_u8(&mut self, i: u8) {
        self.0 = i;
    }
}
fn slot(k: u8) -> usize {
    if k >= 200 {
        9 + ((k - 200) as usize % 2)
    } else {
        (((k / 10) as usize).wrapping_sub(1) % 3) * 3 + (k % 10) as usize % 3
    }
}
impl KeyHasher<u8> for TabH {
    fn hash_key<Q>(&self, key: &Q) -> u64
    where
        u8: Borrow<Q>,
        Q: Hash + Eq + ?Sized,
    {
        let mut g = Grab8(0);
        key.hash(&mut g);
        self.h[slot(g.0)]
    }
}

pub type Lfu = TinyLFU<u8, TabH>;
pub type Wt = WTinyLFUCache<u8, u8, TabH, H, H, H>;
const WORDS: usize = 8;
const R: usize = 1;

pub struct WtM {
    pub wc: usize,
    pub w: ML,
    pub s: SlruM,
}

fn any_est(sym_hash: bool) -> Lfu {
    let rows: [[u8; R]; 4] = kani::any();
    let bits: [u64; WORDS] = kani::any();
    let seeds: [u64; 4] = kani::any();
    let set_locs: u64 = kani::any();
    kani::assume(set_locs >= 1 && set_locs <= 2);
    let samples: usize = kani::any();
    let w: usize = kani::any();
    kani::assume(samples >= 1 && w < samples);
    let kh = if sym_hash {
        TabH { h: kani::any() }
    } else {
        // structure-only harnesses: fixed pairwise different hashes (estimator contents stay symbolic)
        TabH { h: [0x9E37_79B9_7F4A_7C15, 0x3C6E_F372_FE94_F82A, 0xDAA6_6D2C_7DDF_743F, 0x78DD_E6E5_FD29_F054, 0x1715_609F_7C74_6C69, 0xB54C_DA58_FBBE_E87E, 0x5384_5412_7B09_6493, 0xF1BB_CDCB_FA53_E0A8, 0x8FF3_4785_799E_5CBD, 0x2E2A_C13E_F8E8_D8D2, 0xCC62_3AF8_7833_54E7] }
    };
    TinyLFU::verif_from_raw(
        [rows[0].to_vec(), rows[1].to_vec(), rows[2].to_vec(), rows[3].to_vec()],
        (2 * R as u64) - 1,
        seeds,
        bits.to_vec(),
        9,
        set_locs,
        0,
        samples,
        w,
        kh,
    )
}

pub fn gen_wt(caps: [usize; 3], n: [usize; 3], sym_hash: bool) -> (Wt, WtM) {
    let (w, wm) = gen::part_conc(caps[0], n[0], BASES[0]);
    let (p, pm) = gen::part_conc(caps[1], n[1], BASES[1]);
    let (t, tm) = gen::part_conc(caps[2], n[2], BASES[2]);
    let slru = SegmentedCache::verif_from_parts(p, t);
    (
        WTinyLFUCache::verif_from_parts(any_est(sym_hash), w, slru),
        WtM {
            wc: caps[0],
            w: wm,
            s: SlruM {
                pcap: caps[1],
                tcap: caps[2],
                p: pm,
                t: tm,
            },
        },
    )
}

struct Est {
    rows: [[u8; R]; 4],
    bits: [u64; WORDS],
    w: usize,
}
fn est_snap(t: &Lfu) -> Est {
    let mut rows = [[0u8; R]; 4];
    let mut i = 0;
    while i < 4 {
        let r = t.verif_row(i);
        let mut j = 0;
        while j < R {
            rows[i][j] = r[j];
            j += 1;
        }
        i += 1;
    }
    let mut bits = [0u64; WORDS];
    let b = t.verif_bits();
    let mut j = 0;
    while j < WORDS {
        bits[j] = b[j];
        j += 1;
    }
    Est { rows, bits, w: t.verif_w() }
}
fn est_eq(a: &Est, b: &Est) -> bool {
    let mut ok = a.w == b.w;
    let mut i = 0;
    while i < 4 {
        let mut j = 0;
        while j < R {
            ok = ok && a.rows[i][j] == b.rows[i][j];
            j += 1;
        }
        i += 1;
    }
    let mut j = 0;
    while j < WORDS {
        ok = ok && a.bits[j] == b.bits[j];
        j += 1;
    }
    ok
}
fn est_zero(a: &Est) -> bool {
    let z = Est { rows: [[0; R]; 4], bits: [0; WORDS], w: 0 };
    est_eq(a, &z)
}

pub struct WPost {
    pub audit: bool,
    pub size: bool,
    pub sw: ML,
    pub sp: ML,
    pub st: ML,
}

pub fn post_wt(c: &Wt, m: &WtM) -> WPost {
    let (_, w, s) = c.verif_parts();
    let (p, t) = s.verif_parts();
    let (sw, sp, st) = (snap(w), snap(p), snap(t));
    let size = sw.n <= m.wc
        && sp.n <= m.s.pcap
        && st.n <= m.s.tcap
        && disjoint(&sw, &sp)
        && disjoint(&sw, &st)
        && disjoint(&sp, &st)
        && nodup(&sw)
        && nodup(&sp)
        && nodup(&st)
        && c.len() == sw.n + sp.n + st.n
        && c.len() <= c.cap()
        && c.cap() == m.wc + m.s.pcap + m.s.tcap
        && c.window_cache_len() == sw.n
        && c.window_cache_cap() == m.wc
        && c.main_cache_len() == sp.n + st.n
        && c.main_cache_cap() == m.s.pcap + m.s.tcap
        && c.is_empty() == (sw.n + sp.n + st.n == 0);
    WPost {
        audit: w.verif_audit() == 0 && p.verif_audit() == 0 && t.verif_audit() == 0,
        size,
        sw,
        sp,
        st,
    }
}

fn total(n: &[usize; 3]) -> usize {
    n[0] + n[1] + n[2]
}

fn step_put(caps: [usize; 3], n: [usize; 3]) {
    let mut pat = 0;
    while pat <= total(&n) {
        put_one(caps, n, pat);
        pat += 1;
    }
}

fn put_one(caps: [usize; 3], n: [usize; 3], pat: usize) {
    let (mut c, mut m) = gen_wt(caps, n, true);
    let k = gen::pattern_key(pat, &n, &BASES);
    let v: u8 = kani::any();
    let pre_w = m.w;
    let pre_s = m.s;
    let e0 = est_snap(c.verif_parts().0);
    // the oracle: structure from the statement, admission verdict from the real estimator
    let mut rejected = false;
    let mut compared = false;
    let mr = if let Some(old) = m.w.remove_key(k) {
        if m.s.t.n >= m.s.tcap {
            let (dk, dv) = m.s.t.pop_back().unwrap();
            m.w.push_front(dk, dv);
        }
        m.s.t.push_front(k, v);
        MPut::Update(old)
    } else if m.s.has(k) {
        m.s.put(k, v)
    } else if m.w.n < m.wc {
        m.w.push_front(k, v);
        MPut::Put
    } else {
        let (ck, cv) = m.w.pop_back().unwrap();
        m.w.push_front(k, v);
        if m.s.p.n + m.s.t.n < m.s.pcap + m.s.tcap {
            m.s.put(ck, cv)
        } else {
            let (vk, _) = m.s.p.back().unwrap();
            let est = c.verif_parts().0;
            compared = true;
            if est.estimate(&ck) < est.estimate(&vk) {
                rejected = true;
                MPut::Evicted(ck, cv)
            } else {
                m.s.put(ck, cv)
            }
        }
    };
    let r = c.put(k, v);
    let p = post_wt(&c, &m);
    let e1 = est_snap(c.verif_parts().0);
    let res_ok = pr_eq(&r, &mr);
    let keys = p.sw.same_keys(&m.w) && p.sp.same_keys(&m.s.p) && p.st.same_keys(&m.s.t);
    let vals = keys && p.sw.same_vals(&m.w) && p.sp.same_vals(&m.s.p) && p.st.same_vals(&m.s.t);
    // C12 facts on the retained set
    let q: u8 = kani::any();
    let was = pre_w.has(q) || pre_s.has(q);
    let is = p.sw.has(q) || p.sp.has(q) || p.st.has(q);
    let reported = match r {
        caches::PutResult::Evicted { key, .. } => Some(key),
        caches::PutResult::EvictedAndUpdate { evicted, .. } => Some(evicted.0),
        _ => None,
    };
    let delta_ok = is == ((was || q == k) && reported != Some(q));
    let pre_val = |key: u8| match pre_w.val(key) {
        Some(x) => Some(x),
        None => pre_s.val(key),
    };
    let old = pre_val(k);
    let variant_ok = match r {
        caches::PutResult::Put => old.is_none(),
        caches::PutResult::Update(o) => old == Some(o),
        // a rejected candidate may be the very pair that was put only if the window holds a single entry... it
        // never is: the candidate is the window's LRU *before* k entered
        caches::PutResult::Evicted { key, value } => old.is_none() && key != k && pre_val(key) == Some(value),
        caches::PutResult::EvictedAndUpdate { evicted, update } => {
            old == Some(update) && evicted.0 != k && pre_val(evicted.0) == Some(evicted.1)
        }
    };
    let once = (p.sw.val(k) == Some(v)) as u8 + (p.sp.val(k) == Some(v)) as u8 + (p.st.val(k) == Some(v)) as u8;
    let full_main = n[1] + n[2] >= caps[1] + caps[2];
    witness!(n[0] == caps[0] && full_main, pat == total(&n) && rejected, "W: admission comparison rejects the candidate");
    witness!(n[0] == caps[0] && full_main, pat == total(&n) && compared && !rejected, "W: admission comparison admits the candidate (victim evicted)");
    witness!(n[0] == caps[0] && !full_main, pat == total(&n), "W: window overflow while the main cache has room");
    witness!(n[0] >= 1 && n[2] == caps[2], pat < n[0], "W: put on a window key while protected is full (demotion into the window)");
    witness!(n[1] >= 1, pat >= n[0] && pat < n[0] + n[1], "W: put on a probationary key");
    checks! {
        "[C10][C12] put: PutResult equals the W-TinyLFU oracle's (admission verdict = estimate(candidate) < estimate(victim) from the real estimator)" => res_ok;
        "[C10] put: window / probationary / protected contents and orders equal the oracle's" => keys;
        "[C02] stored values after put" => !keys || vals;
        "[C10] put does not touch the frequency estimator" => est_eq(&e0, &e1);
        "[C12] PutResult variant/payload is truthful w.r.t. the retained set before the put" => variant_ok;
        "[C12] retained set changed by exactly +k -reported" => delta_ok;
        "[C12][C02] after the put the key is resident exactly once with the stored value" => once == 1;
        "[C03] list/index audit of window and both segments after put" => p.audit;
        "[C01] window/probationary/protected bounds, key-disjoint lists, len()/cap()/is_empty()" => p.size;
    }
    core::mem::forget(c);
}

/// get / get_mut: one recorded access, then the lookup
fn step_get(caps: [usize; 3], n: [usize; 3]) {
    let mut pat = 0;
    while pat <= total(&n) {
        get_one(caps, n, pat, false);
        pat += 1;
    }
}

/// estimator effect of get/get_mut with symbolic hashes (independent of the list structure:
/// run on the sparse shapes only)
fn step_get_est(caps: [usize; 3], n: [usize; 3]) {
    let mut pat = 0;
    while pat <= total(&n) {
        get_one(caps, n, pat, true);
        pat += 1;
    }
}

fn get_one(caps: [usize; 3], n: [usize; 3], pat: usize, sym_hash: bool) {
    let (mut c, mut m) = gen_wt(caps, n, sym_hash);
    let k = gen::pattern_key(pat, &n, &BASES);
    let w: u8 = kani::any();
    let write: bool = kani::any();
    let mutable: bool = kani::any();
    let hit = match m.w.val(k) {
        Some(x) => Some(x),
        None => m.s.val(k),
    };
    // expected estimator: one recorded access; the extra window tick counts as an explicit try_reset
    let mut ea = c.verif_parts().0.clone();
    let mut eb = c.verif_parts().0.clone();
    if sym_hash {
        ea.increment(&k);
        eb.try_reset();
        eb.increment(&k);
    }
    let (xa, xb) = (est_snap(&ea), est_snap(&eb));
    let res_ok = if mutable {
        let r = c.get_mut(&k);
        let ok = r.as_deref().copied() == hit;
        if write {
            if let Some(x) = r {
                *x = w;
                m.w.set_val(k, w);
                m.s.p.set_val(k, w);
                m.s.t.set_val(k, w);
            }
        }
        ok
    } else {
        c.get(&k).copied() == hit
    };
    if m.w.touch(k).is_none() {
        m.s.access(k);
    }
    let p = post_wt(&c, &m);
    let e1 = est_snap(c.verif_parts().0);
    let keys = p.sw.same_keys(&m.w) && p.sp.same_keys(&m.s.p) && p.st.same_keys(&m.s.t);
    let vals = keys && p.sw.same_vals(&m.w) && p.sp.same_vals(&m.s.p) && p.st.same_vals(&m.s.t);
    witness!(true, pat == total(&n), "W: get miss still records the access");
    witness!(n[1] >= 1, pat >= n[0] && pat < n[0] + n[1], "W: get on a probationary key promotes it");
    checks! {
        "[C02] get/get_mut result equals the value last stored for the key" => res_ok;
        "[C10] every get/get_mut (hit or miss) records exactly one access for the key in the estimator" => !sym_hash || est_eq(&e1, &xa) || est_eq(&e1, &xb);
        "[C10] window refresh / main-cache promotion after get/get_mut" => keys;
        "[C02] stored values after get/get_mut" => !keys || vals;
        "[C03] list/index audit after get/get_mut" => p.audit;
        "[C01] bounds, key-disjoint lists, len()/cap()/is_empty()" => p.size;
    }
    core::mem::forget(c);
    core::mem::forget(ea);
    core::mem::forget(eb);
}

/// peek / peek_mut / contains / remove
fn step_peek(caps: [usize; 3], n: [usize; 3]) {
    let mut pat = 0;
    while pat <= total(&n) {
        peek_one(caps, n, pat);
        pat += 1;
    }
}

fn peek_one(caps: [usize; 3], n: [usize; 3], pat: usize) {
    let (mut c, mut m) = gen_wt(caps, n, false);
    let k = gen::pattern_key(pat, &n, &BASES);
    let w: u8 = kani::any();
    let write: bool = kani::any();
    let op: u8 = kani::any();
    kani::assume(op < 4);
    let hit = match m.w.val(k) {
        Some(x) => Some(x),
        None => m.s.val(k),
    };
    let e0 = est_snap(c.verif_parts().0);
    let mut read_only = true;
    let res_ok = match op {
        0 => c.peek(&k).copied() == hit,
        1 => {
            let r = c.peek_mut(&k);
            let ok = r.as_deref().copied() == hit;
            if write {
                if let Some(x) = r {
                    read_only = false;
                    *x = w;
                    m.w.set_val(k, w);
                    m.s.p.set_val(k, w);
                    m.s.t.set_val(k, w);
                }
            }
            ok
        }
        2 => c.contains(&k) == hit.is_some(),
        _ => {
            read_only = false;
            let r = c.remove(&k);
            if m.w.remove_key(k).is_none() {
                m.s.remove(k);
            }
            r == hit
        }
    };
    let p = post_wt(&c, &m);
    let e1 = est_snap(c.verif_parts().0);
    let keys = p.sw.same_keys(&m.w) && p.sp.same_keys(&m.s.p) && p.st.same_keys(&m.s.t);
    let vals = keys && p.sw.same_vals(&m.w) && p.sp.same_vals(&m.s.p) && p.st.same_vals(&m.s.t);
    witness!(total(&n) >= 1, op == 3 && hit.is_some(), "W: remove of a resident key");
    checks! {
        "[C02] peek/peek_mut/contains/remove result equals the value last stored for the key" => res_ok;
        "[C13] read-only operation left the three lists and the frequency estimator untouched" => !read_only || (keys && vals && est_eq(&e0, &e1));
        "[C02] lists after peek_mut write / remove" => read_only || (keys && vals);
        "[C03] list/index audit" => p.audit;
        "[C01] bounds, key-disjoint lists, len()/cap()/is_empty()" => p.size;
    }
    core::mem::forget(c);
}

/// purge: lists emptied, estimator cleared
fn step_bulk(caps: [usize; 3], n: [usize; 3]) {
    let (mut c, mut m) = gen_wt(caps, n, false);
    c.purge();
    m.w.clear();
    m.s.p.clear();
    m.s.t.clear();
    let p = post_wt(&c, &m);
    let e1 = est_snap(c.verif_parts().0);
    checks! {
        "[C10] purge clears the frequency estimator" => est_zero(&e1);
        "[C02][C01] purge empties window and main cache" => p.sw.n + p.sp.n + p.st.n == 0;
        "[C03] list/index audit after purge" => p.audit;
        "[C01] size accounting after purge" => p.size;
    }
    core::mem::forget(c);
}

macro_rules! wt_family {
    ($($name:ident: [$a:expr, $b:expr, $c:expr], [$x:expr, $y:expr, $z:expr];)*) => {
        $(
            pub(crate) mod $name {
                #[kani::proof]
                #[kani::unwind(9)]
                pub(crate) fn put() {
                    super::step_put([$a, $b, $c], [$x, $y, $z])
                }
                #[kani::proof]
                #[kani::unwind(9)]
                pub(crate) fn get() {
                    super::step_get([$a, $b, $c], [$x, $y, $z])
                }
                #[kani::proof]
                #[kani::unwind(9)]
                pub(crate) fn getest() {
                    super::step_get_est([$a, $b, $c], [$x, $y, $z])
                }
                #[kani::proof]
                #[kani::unwind(9)]
                pub(crate) fn peek() {
                    super::step_peek([$a, $b, $c], [$x, $y, $z])
                }
                #[kani::proof]
                #[kani::unwind(10)]
                pub(crate) fn bulk() {
                    super::step_bulk([$a, $b, $c], [$x, $y, $z])
                }
            }
        )*
    };
}

include!("h_wtlfu_family.rs");
