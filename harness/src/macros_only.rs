//! `checks!` and `witness!` (shared with the std-configuration twin crate).
/// Evaluates every condition first, then asserts each one in its own nondeterministic branch,
/// so that a failing assertion never masks (by Kani's assert-then-assume) another one.
/// Every message starts with the ids of the properties it is evidence for, e.g. "[C06][C12] ...".
#[macro_export]
macro_rules! checks {
    ($($msg:literal => $cond:expr;)*) => {{
        let conds = [$($cond),*];
        let sel: usize = kani::any();
        let mut i = 0usize;
        $(
            if sel == i {
                assert!(conds[i], $msg);
            }
            i = i.wrapping_add(1);
        )*
        let _ = i;
    }};
}

/// Vacuity witness: must be reported satisfiable whenever `$app` (a fact about the concrete
/// shape) says it applies; for shapes where it does not apply it is trivially satisfiable.
#[macro_export]
macro_rules! witness {
    ($app:expr, $cond:expr, $msg:literal) => {
        kani::cover!(!($app) || ($cond), $msg);
    };
}

