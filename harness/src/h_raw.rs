//! F(RawLRU): one real operation from an arbitrary state of a concrete shape (cap, n),
//! compared with the LruM oracle.  Serves C01 C02 C03 C05 C06 C12 C13.
use crate::gen;
use crate::model::*;
use crate::util::*;
use caches::{Cache, ResizableCache};

/// key-addressed operations that never insert
fn step_look(cap: usize, n: usize) {
    let (mut c, mut m) = gen::raw(cap, n);
    let pre = m;
    let k: u8 = kani::any();
    let w: u8 = kani::any();
    let write: bool = kani::any();
    let op: u8 = kani::any();
    kani::assume(op < 6);
    let hit = m.l.val(k);
    let mut read_only = false;
    let res_ok = match op {
        0 => {
            let r = c.get(&k).copied();
            m.l.touch(k);
            r == hit
        }
        1 => {
            let r = c.get_mut(&k);
            let ok = r.as_deref().copied() == hit;
            if write {
                if let Some(x) = r {
                    *x = w;
                    m.l.set_val(k, w);
                }
            }
            m.l.touch(k);
            ok
        }
        2 => {
            read_only = true;
            c.peek(&k).copied() == hit
        }
        3 => {
            read_only = !write;
            let r = c.peek_mut(&k);
            let ok = r.as_deref().copied() == hit;
            if write {
                if let Some(x) = r {
                    *x = w;
                    m.l.set_val(k, w);
                }
            }
            ok
        }
        4 => {
            read_only = true;
            c.contains(&k) == hit.is_some()
        }
        _ => {
            let r = c.remove(&k);
            m.l.remove_key(k);
            r == hit
        }
    };
    let p = post_list(&c, &m.l);
    let capok = c.cap() == cap && c.len() <= c.cap();
    witness!(n >= 2, hit.is_some() && m.l.k[0] != pre.l.k[0], "W: a hit reordered the list");
    witness!(n >= 1, hit.is_some() && op == 5, "W: remove of a resident key");
    witness!(true, hit.is_none(), "W: miss");
    checks! {
        "[C02] lookup result equals the value last stored for the key" => res_ok;
        "[C03] list/index audit after a lookup step" => p.audit;
        "[C01] len/is_empty equal the resident count, len <= cap" => p.len && capok;
        "[C06] recency order after get/get_mut/remove" => read_only || p.keys;
        "[C02] stored values after the step" => read_only || p.vals;
        "[C13] read-only operation left order and values unchanged" => !read_only || (p.keys && p.vals);
    }
    core::mem::forget(c);
}

/// operations addressing the two ends of the list
fn step_ends(cap: usize, n: usize) {
    let (mut c, mut m) = gen::raw(cap, n);
    let w: u8 = kani::any();
    let write: bool = kani::any();
    let op: u8 = kani::any();
    kani::assume(op < 9);
    let lru = m.l.back();
    let mru = m.l.front();
    let mut read_only = false;
    let res_ok = match op {
        0 => {
            let ok = kv_eq(c.get_lru(), lru);
            if let Some((k, _)) = lru {
                m.l.touch(k);
            }
            ok
        }
        1 => {
            let r = c.get_lru_mut();
            let ok = match (&r, lru) {
                (None, None) => true,
                (Some((a, b)), Some((x, y))) => **a == x && **b == y,
                _ => false,
            };
            if let (Some((_, x)), Some((k, _))) = (r, lru) {
                if write {
                    *x = w;
                    m.l.set_val(k, w);
                }
                m.l.touch(k);
            }
            ok
        }
        2 => {
            read_only = true;
            kv_eq(c.get_mru(), mru)
        }
        3 => {
            read_only = !write;
            let r = c.get_mru_mut();
            let ok = match (&r, mru) {
                (None, None) => true,
                (Some((a, b)), Some((x, y))) => **a == x && **b == y,
                _ => false,
            };
            if let (Some((_, x)), Some((k, _))) = (r, mru) {
                if write {
                    *x = w;
                    m.l.set_val(k, w);
                }
            }
            ok
        }
        4 => {
            read_only = true;
            kv_eq(c.peek_lru(), lru)
        }
        5 => {
            read_only = !write;
            let r = c.peek_lru_mut();
            let ok = match (&r, lru) {
                (None, None) => true,
                (Some((a, b)), Some((x, y))) => **a == x && **b == y,
                _ => false,
            };
            if let (Some((_, x)), Some((k, _))) = (r, lru) {
                if write {
                    *x = w;
                    m.l.set_val(k, w);
                }
            }
            ok
        }
        6 => {
            read_only = true;
            kv_eq(c.peek_mru(), mru)
        }
        7 => {
            read_only = !write;
            let r = c.peek_mru_mut();
            let ok = match (&r, mru) {
                (None, None) => true,
                (Some((a, b)), Some((x, y))) => **a == x && **b == y,
                _ => false,
            };
            if let (Some((_, x)), Some((k, _))) = (r, mru) {
                if write {
                    *x = w;
                    m.l.set_val(k, w);
                }
            }
            ok
        }
        _ => {
            let r = c.remove_lru();
            m.l.pop_back();
            r == lru
        }
    };
    let p = post_list(&c, &m.l);
    let capok = c.cap() == cap && c.len() <= c.cap();
    witness!(n >= 2, op == 0, "W: get_lru on a list of >= 2");
    witness!(true, op == 8, "W: remove_lru");
    checks! {
        "[C06] get_lru/peek_lru/remove_lru name the least, get_mru/peek_mru the most recently used entry" => res_ok;
        "[C03] list/index audit after an end-of-list step" => p.audit;
        "[C01] len/is_empty equal the resident count, len <= cap" => p.len && capok;
        "[C06] recency order after get_lru/get_lru_mut/remove_lru" => read_only || p.keys;
        "[C02] stored values after the step" => read_only || p.vals;
        "[C13] read-only operation left order and values unchanged" => !read_only || (p.keys && p.vals);
    }
    core::mem::forget(c);
}

/// put and the *_or_put family
fn step_put(cap: usize, n: usize) {
    let (mut c, mut m) = gen::raw(cap, n);
    let pre = m;
    let k: u8 = kani::any();
    let v: u8 = kani::any();
    let w: u8 = kani::any();
    let write: bool = kani::any();
    let op: u8 = kani::any();
    kani::assume(op < 4);
    let hit = m.l.val(k);
    let mut final_v = v;
    let mut read_only = false;
    let res_ok = match op {
        0 => {
            let r = c.put(k, v);
            let mr = m.put(k, v);
            pr_eq(&r, &mr)
        }
        1 => {
            let (pv, pr) = c.peek_or_put(k, v);
            let pv = pv.copied();
            match hit {
                Some(x) => {
                    read_only = true;
                    final_v = x;
                    pv == Some(x) && pr.is_none()
                }
                None => {
                    let mr = m.put(k, v);
                    pv.is_none() && opt_pr_eq(&pr, &Some(mr))
                }
            }
        }
        2 => {
            let (pv, pr) = c.peek_mut_or_put(k, v);
            match hit {
                Some(x) => {
                    let ok = pv.as_deref().copied() == Some(x) && pr.is_none();
                    final_v = x;
                    read_only = !write;
                    if write {
                        if let Some(r) = pv {
                            *r = w;
                            m.l.set_val(k, w);
                            final_v = w;
                        }
                    }
                    ok
                }
                None => {
                    let mr = m.put(k, v);
                    pv.is_none() && opt_pr_eq(&pr, &Some(mr))
                }
            }
        }
        _ => {
            let (b, pr) = c.contains_or_put(k, v);
            match hit {
                Some(x) => {
                    read_only = true;
                    final_v = x;
                    b && pr.is_none()
                }
                None => {
                    let mr = m.put(k, v);
                    !b && opt_pr_eq(&pr, &Some(mr))
                }
            }
        }
    };
    let s = snap(&c);
    let p = post_list(&c, &m.l);
    let capok = c.cap() == cap && c.len() <= c.cap();
    // C12: afterwards k is resident with the value just stored (cap 0: pair bounced, nothing kept)
    let resident_ok = if cap == 0 { s.n == 0 } else { s.val(k) == Some(final_v) };
    // C12: retained set changed by exactly +k -reported, for a universally quantified key q
    let q: u8 = kani::any();
    let evicted_q = hit.is_none() && cap > 0 && n == cap && pre.l.back().map(|e| e.0) == Some(q);
    let want_q = if cap == 0 { pre.l.has(q) } else { (pre.l.has(q) || q == k) && !evicted_q };
    let delta_ok = s.has(q) == want_q;
    witness!(n == cap && cap > 0, hit.is_none(), "W: put of a new key into a full list (eviction)");
    witness!(n >= 1, hit.is_some(), "W: put on a resident key");
    witness!(n < cap, hit.is_none(), "W: put with room");
    checks! {
        "[C12][C06] PutResult equals the oracle's (variant, old value, evicted = true LRU pair)" => res_ok;
        "[C12][C02] after the put the key is resident with the stored value" => resident_ok;
        "[C12] retained set changed by exactly +k -reported" => delta_ok;
        "[C03] list/index audit after a put step" => p.audit;
        "[C01] len/is_empty equal the resident count, len <= cap" => p.len && capok;
        "[C06] recency order after a put-like step" => read_only || p.keys;
        "[C02] stored values after a put-like step" => read_only || p.vals;
        "[C13] *_or_put on a resident key left order and values unchanged" => !read_only || (p.keys && p.vals);
    }
    core::mem::forget(c);
}

/// purge and resize
fn step_bulk(cap: usize, n: usize) {
    let (mut c, mut m) = gen::raw(cap, n);
    let pre = m;
    let newcap: usize = kani::any();
    let op: u8 = kani::any();
    kani::assume(op < 2);
    let res_ok = match op {
        0 => {
            c.purge();
            m.l.clear();
            true
        }
        _ => {
            let r = c.resize(newcap);
            let mr = m.resize(newcap);
            r == mr
        }
    };
    let p = post_list(&c, &m.l);
    let capok = c.cap() == m.cap && c.len() <= c.cap();
    // the survivors are exactly the most recent ones, in their old order
    let prefix_ok = m.l.is_sublist_of(&pre.l) && (m.l.n == 0 || m.l.k[0] == pre.l.k[0]);
    witness!(n >= 2, op == 1 && newcap < n && newcap > 0, "W: resize discards some but not all");
    witness!(n >= 1, op == 1 && newcap == 0, "W: resize to 0 of a non-empty list");
    witness!(n >= 1, op == 0, "W: purge of a non-empty list");
    witness!(true, op == 1 && newcap > cap, "W: resize grows");
    checks! {
        "[C06] resize returns max(0, len-n)" => res_ok;
        "[C06] resize/purge keep exactly the most recent entries in order" => p.keys && prefix_ok;
        "[C02] stored values after resize/purge" => p.vals;
        "[C03] list/index audit after resize/purge" => p.audit;
        "[C01] len/is_empty equal the resident count, len <= cap, cap() == n" => p.len && capok;
    }
    core::mem::forget(c);
}

/// base case of the induction: the constructor
#[kani::proof]
#[kani::unwind(6)]
pub(crate) fn ctor() {
    let cap: usize = kani::any();
    match caches::RawLRU::<u8, u8>::new(cap) {
        Err(e) => {
            checks! {
                "[C05] RawLRU::new rejects exactly size 0 with InvalidSize(0)" => cap == 0 && e == caches::lru::CacheError::InvalidSize(0);
            }
        }
        Ok(c) => {
            let ok = c.len() == 0 && c.cap() == cap && c.is_empty() && c.verif_audit() == 0;
            checks! {
                "[C05] RawLRU::new accepts every size >= 1" => cap >= 1;
                "[C01][C03] a new RawLRU is empty, well formed, cap() == requested" => ok;
            }
            core::mem::forget(c);
        }
    }
}

macro_rules! raw_family {
    ($($name:ident: $cap:expr, $n:expr;)*) => {
        $(
            pub(crate) mod $name {
                #[kani::proof]
                #[kani::unwind(6)]
                pub(crate) fn look() {
                    super::step_look($cap, $n)
                }
                #[kani::proof]
                #[kani::unwind(6)]
                pub(crate) fn ends() {
                    super::step_ends($cap, $n)
                }
                #[kani::proof]
                #[kani::unwind(6)]
                pub(crate) fn put() {
                    super::step_put($cap, $n)
                }
                #[kani::proof]
                #[kani::unwind(6)]
                pub(crate) fn bulk() {
                    super::step_bulk($cap, $n)
                }
            }
        )*
    };
}

raw_family! {
    c0n0: 0, 0;
    c1n0: 1, 0;
    c1n1: 1, 1;
    c2n0: 2, 0;
    c2n1: 2, 1;
    c2n2: 2, 2;
    c3n0: 3, 0;
    c3n1: 3, 1;
    c3n2: 3, 2;
    c3n3: 3, 3;
}
