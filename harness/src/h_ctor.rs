//! Constructors, builders and conversions with symbolic arguments (C05; base cases of C01/C08/C10).
use crate::model::*;
use crate::util::*;
use caches::lfu::{SampledLFU, TinyLFU};
use caches::lru::CacheError;
use caches::{Cache, DefaultEvictCallback, RawLRU, TwoQueueCache, TwoQueueCacheBuilder, WTinyLFUCache};
use hashbrown::DefaultHashBuilder as H;

const MAXSZ: usize = 1 << 16;

#[kani::proof]
#[kani::unwind(7)]
pub(crate) fn raw_all_constructors() {
    let cap: usize = kani::any();
    let which: u8 = kani::any();
    kani::assume(which < 4);
    let (ok, len_cap_ok) = match which {
        0 => match RawLRU::<u8, u8>::new(cap) {
            Ok(c) => {
                let r = (true, c.cap() == cap && c.len() == 0 && c.verif_audit() == 0);
                core::mem::forget(c);
                r
            }
            Err(e) => (false, e == CacheError::InvalidSize(0)),
        },
        1 => match RawLRU::<u8, u8, DefaultEvictCallback, H>::with_hasher(cap, H::default()) {
            Ok(c) => {
                let r = (true, c.cap() == cap && c.len() == 0 && c.verif_audit() == 0);
                core::mem::forget(c);
                r
            }
            Err(e) => (false, e == CacheError::InvalidSize(0)),
        },
        2 => match RawLRU::<u8, u8, DefaultEvictCallback>::with_on_evict_cb(cap, DefaultEvictCallback) {
            Ok(c) => {
                let r = (true, c.cap() == cap && c.len() == 0 && c.verif_audit() == 0);
                core::mem::forget(c);
                r
            }
            Err(e) => (false, e == CacheError::InvalidSize(0)),
        },
        _ => match RawLRU::<u8, u8, DefaultEvictCallback, H>::with_on_evict_cb_and_hasher(cap, DefaultEvictCallback, H::default()) {
            Ok(c) => {
                let r = (true, c.cap() == cap && c.len() == 0 && c.verif_audit() == 0);
                core::mem::forget(c);
                r
            }
            Err(e) => (false, e == CacheError::InvalidSize(0)),
        },
    };
    checks! {
        "[C05] every RawLRU constructor accepts exactly cap >= 1 and rejects 0 with InvalidSize(0)" => ok == (cap >= 1) && len_cap_ok;
    }
}

fn in01(x: f64) -> bool {
    x >= 0.0 && x <= 1.0
}

/// floor(x) == n for x >= 0, without a floating-point floor in the oracle
fn is_floor(x: f64, n: usize) -> bool {
    (n as f64) <= x && x < (n as f64) + 1.0
}

/// one TwoQueueCache construction; `which` selects the constructor
fn twoq_one(which: u8, size: usize, rr: f64, gr: f64) {
    let (erx, egx) = match which {
        0 => (0.25, 0.5),
        1 => (rr, 0.5),
        2 => (0.25, gr),
        _ => (rr, gr),
    };
    let r = match which {
        0 => TwoQueueCache::<u8, u8>::new(size),
        1 => TwoQueueCache::<u8, u8>::with_recent_ratio(size, rr),
        2 => TwoQueueCache::<u8, u8>::with_ghost_ratio(size, gr),
        3 => TwoQueueCache::<u8, u8>::with_2q_parameters(size, rr, gr),
        4 => TwoQueueCacheBuilder::new(size).set_recent_ratio(rr).set_ghost_ratio(gr).finalize::<u8, u8>(),
        // every setter of the builder: the hasher setters rebuild the builder field by field and
        // must carry size and both ratios over, whichever order the setters are called in
        5 => TwoQueueCacheBuilder::new(size)
            .set_recent_ratio(rr)
            .set_ghost_ratio(gr)
            .set_recent_hasher(H::default())
            .set_frequent_hasher(H::default())
            .set_ghost_hasher(H::default())
            .finalize::<u8, u8>(),
        _ => TwoQueueCacheBuilder::new(0)
            .set_ghost_hasher(H::default())
            .set_size(size)
            .set_frequent_hasher(H::default())
            .set_recent_ratio(rr)
            .set_recent_hasher(H::default())
            .set_ghost_ratio(gr)
            .finalize::<u8, u8>(),
    };
    let xr = (size as f64) * erx;
    let xg = (size as f64) * egx;
    match r {
        Ok(c) => {
            let (lr, lf, lg) = c.verif_parts();
            let sizes_ok = c.cap() == size
                && lr.cap() == size
                && lf.cap() == size
                && is_floor(xr, c.verif_recent_size())
                && is_floor(xg, lg.cap())
                && lg.cap() >= 1
                && c.len() == 0
                && c.is_empty()
                && lr.verif_audit() == 0
                && lf.verif_audit() == 0
                && lg.verif_audit() == 0;
            checks! {
                "[C05] TwoQueueCache accepts only size >= 1, ratios in [0,1] (never NaN) and a ghost bound >= 1" => size >= 1 && in01(erx) && in01(egx) && xg >= 1.0;
                "[C08][C01] quota == floor(size * recent ratio), ghost bound == floor(size * ghost ratio); new cache empty and well formed" => sizes_ok;
            }
            core::mem::forget(c);
        }
        Err(e) => {
            let matching = match e {
                CacheError::InvalidSize(_) => size == 0 || xg < 1.0 || !in01(egx),
                CacheError::InvalidRecentRatio(x) => !in01(erx) && (x == erx || (x != x && erx != erx)),
                CacheError::InvalidGhostRatio(x) => !in01(egx) && (x == egx || (x != x && egx != egx)),
            };
            checks! {
                "[C05] TwoQueueCache rejection carries the error matching an invalid argument" => matching;
                "[C05] TwoQueueCache rejects only invalid arguments" => size == 0 || !in01(erx) || !in01(egx) || xg < 1.0;
            }
        }
    }
}

const RATIOS: [f64; 10] = [0.0, 1.0, 0.25, 0.5, 0.999, -0.0, -0.5, 1.5, f64::NAN, f64::INFINITY];
const SIZES: [usize; 6] = [0, 1, 2, 3, 7, 100];

/// grid: sizes x recent ratios x ghost ratios (boundary, NaN and out-of-range values included)
fn twoq_grid(which: u8) {
    let mut i = 0;
    while i < SIZES.len() {
        let mut a = 0;
        while a < RATIOS.len() {
            let (rr, gr) = if which == 2 { (0.25, RATIOS[a]) } else { (RATIOS[a], 0.5) };
            twoq_one(which, SIZES[i], rr, gr);
            if which >= 3 {
                // the constructors that take both ratios: vary the ghost ratio as well
                twoq_one(which, SIZES[i], 1.0, RATIOS[a]);
            }
            a += 1;
        }
        i += 1;
    }
}

/// symbolic ratio (any f64 bit pattern) at concrete small sizes
fn twoq_symbolic_ratio(which: u8, size: usize) {
    let x: f64 = kani::any();
    let (rr, gr) = if which == 2 { (0.25, x) } else { (x, 0.5) };
    twoq_one(which, size, rr, gr);
}

macro_rules! twoq {
    ($name:ident, $sym:ident, $w:expr) => {
        #[kani::proof]
        #[kani::unwind(12)]
        pub(crate) fn $name() {
            twoq_grid($w)
        }
        #[kani::proof]
        #[kani::unwind(12)]
        pub(crate) fn $sym() {
            twoq_symbolic_ratio($w, 1);
            twoq_symbolic_ratio($w, 3);
        }
    };
}
twoq!(twoq_new, twoq_new_sym, 0);
twoq!(twoq_with_recent_ratio, twoq_with_recent_ratio_sym, 1);
twoq!(twoq_with_ghost_ratio, twoq_with_ghost_ratio_sym, 2);
twoq!(twoq_with_2q_parameters, twoq_with_2q_parameters_sym, 3);
twoq!(twoq_builder, twoq_builder_sym, 4);
twoq!(twoq_builder_hashers, twoq_builder_hashers_sym, 5);
twoq!(twoq_builder_hashers_late, twoq_builder_hashers_late_sym, 6);

/// TinyLFU::new: sizes symbolic, false-positive ratio an arbitrary f64
fn tinylfu_ctor(valid_class: bool, grid: Option<f64>) {
    let size: usize = kani::any();
    let samples: usize = kani::any();
    kani::assume(size <= 4 && samples <= 4);
    let fp: f64 = match grid {
        Some(x) => x,
        None => kani::any(),
    };
    // "sizes that fit in memory": a ratio below 2^-64 asks for an astronomically large doorkeeper
    kani::assume(!(fp > 0.0 && fp < 5.421010862427522e-20));
    let valid = size >= 1 && samples >= 1 && fp > 0.0 && fp < 1.0;
    kani::assume(valid == valid_class);
    witness!(valid_class, size == 1, "W: sketch of size 1 accepted");
    witness!(!valid_class && grid.is_none(), fp != fp && size >= 1 && samples >= 1, "W: NaN false-positive ratio rejected");
    match TinyLFU::<u64>::new(size, samples, fp) {
        Ok(t) => {
            let (exp, locs) = t.verif_bloom_params();
            let shape_ok = t.verif_w() == 0
                && t.verif_samples() == samples
                && t.verif_row(0).len() >= 1
                && (t.verif_mask() + 1) / 2 == t.verif_row(0).len() as u64
                && (t.verif_mask() + 1).is_power_of_two()
                && exp >= 9
                && t.verif_bits().len() as u64 == (1u64 << exp) / 64
                && locs >= 1;
            checks! {
                "[C05] TinyLFU::new accepts only size >= 1, samples >= 1 and a ratio strictly inside (0,1)" => valid;
                "[C05][C11] a new TinyLFU has non-empty power-of-two rows, a doorkeeper of >= 512 bits with >= 1 probe, w == 0" => shape_ok;
            }
            core::mem::forget(t);
        }
        Err(e) => {
            let (code, x) = e.verif_code();
            let matching = match code {
                1 => samples == 0 && x == 0.0,
                0 => size == 0 && x == 0.0,
                _ => !(fp > 0.0 && fp < 1.0) && (x == fp || (x != x && fp != fp)),
            };
            checks! {
                "[C05] TinyLFU::new rejection carries the error matching an invalid argument" => matching;
                "[C05] TinyLFU::new rejects only invalid arguments" => !valid;
            }
        }
    }
}

#[kani::proof]
#[kani::unwind(66)]
pub(crate) fn tinylfu_ctor_invalid() {
    tinylfu_ctor(false, None)
}

#[kani::proof]
#[kani::unwind(66)]
pub(crate) fn tinylfu_ctor_valid_symbolic_ratio() {
    tinylfu_ctor(true, None)
}

#[kani::proof]
#[kani::unwind(66)]
pub(crate) fn tinylfu_ctor_valid_grid() {
    tinylfu_ctor(true, Some(0.01));
    tinylfu_ctor(true, Some(0.5));
    tinylfu_ctor(true, Some(0.999));
    tinylfu_ctor(true, Some(1e-9));
}

/// a freshly constructed estimator of the smallest sizes is usable
#[kani::proof]
#[kani::unwind(66)]
pub(crate) fn tinylfu_new_usable() {
    let mut size = 1;
    while size <= 3 {
        let mut samples = 1;
        while samples <= 2 {
            if let Ok(mut t) = TinyLFU::<u64>::new(size, samples, 0.01) {
                let h: u64 = kani::any();
                t.increment_hashed_key(h);
                let e = t.estimate_hashed_key(h);
                checks! {
                    "[C05] the first access on a new TinyLFU is recorded without panicking (estimate 1, or 0 when it triggered the reset)" => e == 1 || (samples == 1 && e == 0);
                }
                core::mem::forget(t);
            }
            samples += 1;
        }
        size += 1;
    }
}

/// W-TinyLFU constructors over a grid of sizes / sample sizes / ratios
fn wt_one(which: u8, a: usize, b: usize, c: usize, samples: usize, fp: f64) {
    let efp = if which == 0 { 0.01 } else { fp };
    let valid = a >= 1 && b >= 1 && c >= 1 && samples >= 1 && efp > 0.0 && efp < 1.0;
    let r = if which == 0 {
        WTinyLFUCache::<u8, u8>::with_sizes(a, b, c, samples)
    } else {
        caches::WTinyLFUCacheBuilder::<u8>::new(a, b, c, samples)
            .set_false_positive_ratio(fp)
            .finalize::<u8>()
    };
    match r {
        Ok(w) => {
            let (est, lru, slru) = w.verif_parts();
            let (p, t) = slru.verif_parts();
            let ok = w.len() == 0
                && w.is_empty()
                && w.cap() == a + b + c
                && lru.cap() == a
                && t.cap() == b
                && p.cap() == c
                && w.window_cache_cap() == a
                && w.main_cache_cap() == b + c
                && est.verif_w() == 0
                && est.verif_samples() == samples
                && lru.verif_audit() == 0
                && p.verif_audit() == 0
                && t.verif_audit() == 0;
            checks! {
                "[C05] WTinyLFUCache accepts only sizes >= 1, samples >= 1 and a ratio strictly inside (0,1)" => valid;
                "[C01][C10] a new WTinyLFUCache is empty with window/protected/probationary capacities as requested" => ok;
            }
            core::mem::forget(w);
        }
        Err(e) => {
            let (code, x) = e.verif_code();
            let matching = match code {
                2 => a == 0 && x == 0.0,
                4 => b == 0 && x == 0.0,
                3 => c == 0 && x == 0.0,
                1 => samples == 0 && x == 0.0,
                5 => !(efp > 0.0 && efp < 1.0) && (x == efp || (x != x && efp != efp)),
                _ => false,
            };
            checks! {
                "[C05] WTinyLFUCache rejection carries the error matching an invalid argument" => matching;
                "[C05] WTinyLFUCache rejects only invalid arguments" => !valid;
            }
        }
    }
}

#[kani::proof]
#[kani::unwind(66)]
pub(crate) fn wtinylfu_ctor_sizes() {
    // every combination of zero / non-zero sizes and sample sizes, default ratio
    let mut m = 0u8;
    while m < 16 {
        let a = (m & 1) as usize;
        let b = ((m >> 1) & 1) as usize * 2;
        let c = ((m >> 2) & 1) as usize * 3;
        let samples = ((m >> 3) & 1) as usize * 2;
        wt_one(0, a, b, c, samples, 0.01);
        m += 1;
    }
}

#[kani::proof]
#[kani::unwind(66)]
pub(crate) fn wtinylfu_ctor_ratios() {
    const FPS: [f64; 9] = [0.01, 0.5, 0.999, 0.0, 1.0, -0.5, 2.0, f64::NAN, f64::INFINITY];
    let mut i = 0;
    while i < FPS.len() {
        wt_one(1, 1, 1, 1, 1, FPS[i]);
        i += 1;
    }
    wt_one(1, 2, 1, 3, 4, 1e-9);
}

/// WTinyLFUCache::new(size, samples): never panics, Ok exactly when the derived segment sizes are >= 1
#[kani::proof]
#[kani::unwind(66)]
pub(crate) fn wtinylfu_new() {
    let size: usize = kani::any();
    let samples: usize = kani::any();
    kani::assume(size <= 400 && samples <= 64);
    match WTinyLFUCache::<u8, u8>::new(size, samples) {
        Ok(w) => {
            checks! {
                "[C05] WTinyLFUCache::new accepts only when every derived segment holds >= 1 entry and samples >= 1" => w.window_cache_cap() >= 1 && w.main_cache_cap() >= 2 && samples >= 1;
            }
            core::mem::forget(w);
        }
        Err(_) => {
            // sizes below 100 derive a window of floor(size * 0.01) == 0 entries
            checks! {
                "[C05] WTinyLFUCache::new rejects only when a derived size is 0 or samples == 0" => size < 100 || samples == 0;
            }
        }
    }
}

#[kani::proof]
#[kani::unwind(7)]
pub(crate) fn sampled_constructors() {
    use crate::h_tlfu::IdH;
    let mc: i64 = kani::any();
    let samples: usize = kani::any();
    let c: i64 = kani::any();
    kani::assume(mc > -(1 << 40) && mc < (1 << 40) && c > -(1 << 40) && c < (1 << 40));
    let which: u8 = kani::any();
    kani::assume(which < 7);
    let room = match which {
        0 => SampledLFU::<u64>::new(mc).room_left(c),
        1 => SampledLFU::<u64>::with_samples(mc, samples).room_left(c),
        2 => SampledLFU::<u64, _, H>::with_hasher(mc, H::default()).room_left(c),
        3 => SampledLFU::<u64, _, H>::with_samples_and_hasher(mc, samples, H::default()).room_left(c),
        4 => SampledLFU::<u64, IdH>::with_key_hasher(mc, IdH).room_left(c),
        5 => SampledLFU::<u64, IdH>::with_samples_and_key_hasher(mc, samples, IdH).room_left(c),
        _ => SampledLFU::<u64, IdH, H>::with_samples_and_key_hasher_and_hasher(mc, samples, IdH, H::default()).room_left(c),
    };
    checks! {
        "[C05][C20] every SampledLFU constructor yields an empty tracker: room_left(c) == max_cost - c" => room == mc - c;
    }
}

/// conversions: FromIterator / From<Vec> / From<&[_]> / From<[_; N]> with 0..=3 pairs
fn conv_check(c: RawLRU<u8, u8>, inp: &[(u8, u8)]) {
    let n = inp.len();
    let mut m = LruM { cap: if n == 0 { 1 } else { n }, l: ML::new() };
    let mut i = 0;
    while i < n {
        m.put(inp[i].0, inp[i].1);
        i += 1;
    }
    let s = snap(&c);
    checks! {
        "[C05] conversion into RawLRU returns normally; capacity >= 1 and >= the number of pairs" => c.cap() == m.cap;
        "[C06] conversion into RawLRU == putting the pairs in order" => s.same(&m.l) && c.verif_audit() == 0 && c.len() == m.l.n;
    }
    core::mem::forget(c);
}

macro_rules! conv {
    ($name:ident, $n:expr) => {
        #[kani::proof]
        #[kani::unwind(6)]
        pub(crate) fn $name() {
            let inp: [(u8, u8); $n] = kani::any();
            let which: u8 = kani::any();
            kani::assume(which < 4);
            match which {
                0 => conv_check(RawLRU::from(inp), &inp),
                1 => conv_check(RawLRU::from(inp.to_vec()), &inp),
                2 => conv_check(RawLRU::from(&inp[..]), &inp),
                _ => conv_check(inp.iter().cloned().collect::<RawLRU<u8, u8>>(), &inp),
            }
        }
    };
}
conv!(conv_n0, 0);
conv!(conv_n1, 1);
conv!(conv_n2, 2);
conv!(conv_n3, 3);
