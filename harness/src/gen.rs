//! State generators: every state of a given shape that satisfies the representation invariant,
//! with symbolic (pairwise distinct) keys and symbolic values.
use crate::model::*;
use caches::{Cache, DefaultEvictCallback, OnEvictCallback, RawLRU, ResizableCache};
use hashbrown::DefaultHashBuilder;

pub type Lru = RawLRU<u8, u8, DefaultEvictCallback, DefaultHashBuilder>;

/// Fills `c` (empty, capacity >= n) with `n` fresh symbolic entries that are distinct from each
/// other and from every key in `others`; returns the model list (MRU first).
pub fn fill<E: OnEvictCallback>(
    c: &mut RawLRU<u8, u8, E, DefaultHashBuilder>,
    n: usize,
    others: &[&ML],
) -> ML {
    let mut m = ML::new();
    let mut i = 0;
    while i < n {
        let k: u8 = kani::any();
        let v: u8 = kani::any();
        kani::assume(!m.has(k));
        let mut j = 0;
        while j < others.len() {
            kani::assume(!others[j].has(k));
            j += 1;
        }
        let _ = c.put(k, v);
        m.push_front(k, v);
        i += 1;
    }
    m
}

/// A RawLRU of capacity `cap` (0 allowed: reached through `resize(0)`) holding `n <= cap`
/// arbitrary distinct entries.
pub fn raw(cap: usize, n: usize) -> (Lru, LruM) {
    let mut c: Lru = RawLRU::new(if cap == 0 { 1 } else { cap }).unwrap();
    let l = fill(&mut c, n, &[]);
    if cap == 0 {
        let _ = c.resize(0);
    }
    (c, LruM { cap, l })
}

/// A list for use as a part of a composite cache.
pub fn part(cap: usize, n: usize, others: &[&ML]) -> (Lru, ML) {
    let mut c: Lru = RawLRU::with_hasher(cap, DefaultHashBuilder::default()).unwrap();
    let l = fill(&mut c, n, others);
    (c, l)
}

/// Concrete-key variant (DESIGN 2.4, pattern enumeration): keys are the constants base, base+1, ..
/// (values stay symbolic).  Sound for the generic cache code by parametricity in `K: Hash + Eq`.
pub fn part_conc(cap: usize, n: usize, base: u8) -> (Lru, ML) {
    let mut c: Lru = RawLRU::with_hasher(cap, DefaultHashBuilder::default()).unwrap();
    let mut m = ML::new();
    let mut i = 0;
    while i < n {
        let k = base + i as u8;
        let v: u8 = kani::any();
        let _ = c.put(k, v);
        m.push_front(k, v);
        i += 1;
    }
    (c, m)
}

/// The operation key for pattern `pat` over lists of lengths `ns` whose keys start at `bases`:
/// pat < sum(ns) selects a stored key (in list order), pat == sum(ns) a key stored nowhere.
pub fn pattern_key(pat: usize, ns: &[usize], bases: &[u8]) -> u8 {
    let mut off = 0;
    let mut i = 0;
    while i < ns.len() {
        if pat < off + ns[i] {
            return bases[i] + (pat - off) as u8;
        }
        off += ns[i];
        i += 1;
    }
    200
}
