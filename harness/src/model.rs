//! Executable reference models (oracles), written from the property statements only.
//! Everything is a fixed-size array so that the solver sees no heap.

/// Maximum length of one model list (largest capacity class + 1).
pub const MAXN: usize = hashbrown::SHIM_CAP;

/// A recency list: index 0 = most recently used, index n-1 = least recently used.
#[derive(Clone, Copy)]
pub struct ML {
    pub k: [u8; MAXN],
    pub v: [u8; MAXN],
    pub n: usize,
}

impl ML {
    pub const fn new() -> Self {
        ML {
            k: [0; MAXN],
            v: [0; MAXN],
            n: 0,
        }
    }
    pub fn find(&self, key: u8) -> Option<usize> {
        let mut i = 0;
        while i < MAXN {
            if i < self.n && self.k[i] == key {
                return Some(i);
            }
            i += 1;
        }
        None
    }
    pub fn has(&self, key: u8) -> bool {
        self.find(key).is_some()
    }
    pub fn val(&self, key: u8) -> Option<u8> {
        match self.find(key) {
            Some(i) => Some(self.v[i]),
            None => None,
        }
    }
    /// Removes position `i` (< n), keeping the order of the rest.
    pub fn remove_at(&mut self, i: usize) -> (u8, u8) {
        let out = (self.k[i], self.v[i]);
        let mut j = 0;
        while j + 1 < MAXN {
            if j >= i && j + 1 < self.n {
                self.k[j] = self.k[j + 1];
                self.v[j] = self.v[j + 1];
            }
            j += 1;
        }
        self.n -= 1;
        out
    }
    pub fn remove_key(&mut self, key: u8) -> Option<u8> {
        match self.find(key) {
            Some(i) => Some(self.remove_at(i).1),
            None => None,
        }
    }
    /// Inserts at the most-recent end. Caller guarantees n < MAXN.
    pub fn push_front(&mut self, key: u8, val: u8) {
        let mut j = MAXN - 1;
        while j > 0 {
            if j <= self.n {
                self.k[j] = self.k[j - 1];
                self.v[j] = self.v[j - 1];
            }
            j -= 1;
        }
        self.k[0] = key;
        self.v[0] = val;
        self.n += 1;
    }
    /// Appends at the least-recent end. Caller guarantees n < MAXN.
    pub fn push_back(&mut self, key: u8, val: u8) {
        self.k[self.n] = key;
        self.v[self.n] = val;
        self.n += 1;
    }
    pub fn pop_back(&mut self) -> Option<(u8, u8)> {
        if self.n == 0 {
            None
        } else {
            self.n -= 1;
            Some((self.k[self.n], self.v[self.n]))
        }
    }
    pub fn back(&self) -> Option<(u8, u8)> {
        if self.n == 0 {
            None
        } else {
            Some((self.k[self.n - 1], self.v[self.n - 1]))
        }
    }
    pub fn front(&self) -> Option<(u8, u8)> {
        if self.n == 0 {
            None
        } else {
            Some((self.k[0], self.v[0]))
        }
    }
    /// Moves `key` to the front if present; returns its value.
    pub fn touch(&mut self, key: u8) -> Option<u8> {
        match self.find(key) {
            Some(i) => {
                let (k, v) = self.remove_at(i);
                self.push_front(k, v);
                Some(v)
            }
            None => None,
        }
    }
    pub fn set_val(&mut self, key: u8, val: u8) -> bool {
        match self.find(key) {
            Some(i) => {
                self.v[i] = val;
                true
            }
            None => false,
        }
    }
    pub fn clear(&mut self) {
        self.n = 0;
    }
    pub fn same_keys(&self, o: &ML) -> bool {
        if self.n != o.n {
            return false;
        }
        let mut i = 0;
        let mut ok = true;
        while i < MAXN {
            if i < self.n && self.k[i] != o.k[i] {
                ok = false;
            }
            i += 1;
        }
        ok
    }
    pub fn same_vals(&self, o: &ML) -> bool {
        if self.n != o.n {
            return false;
        }
        let mut i = 0;
        let mut ok = true;
        while i < MAXN {
            if i < self.n && self.v[i] != o.v[i] {
                ok = false;
            }
            i += 1;
        }
        ok
    }
    pub fn same(&self, o: &ML) -> bool {
        self.same_keys(o) && self.same_vals(o)
    }
    /// `o` is the exact reverse of `self`.
    pub fn is_reverse_of(&self, o: &ML) -> bool {
        if self.n != o.n {
            return false;
        }
        let mut i = 0;
        let mut ok = true;
        while i < MAXN {
            if i < self.n {
                let j = self.n - 1 - i;
                if self.k[i] != o.k[j] || self.v[i] != o.v[j] {
                    ok = false;
                }
            }
            i += 1;
        }
        ok
    }
    /// `self` is an order-preserving sub-list (keys and values) of `o`.
    pub fn is_sublist_of(&self, o: &ML) -> bool {
        let mut i = 0; // cursor in self
        let mut j = 0;
        while j < MAXN {
            if j < o.n && i < self.n && self.k[i] == o.k[j] && self.v[i] == o.v[j] {
                i += 1;
            }
            j += 1;
        }
        i == self.n
    }
}

/// Model of a `PutResult<u8,u8>`.
#[derive(Clone, Copy, PartialEq, Eq)]
pub enum MPut {
    Put,
    Update(u8),
    Evicted(u8, u8),
    EvictedAndUpdate(u8, u8, u8),
}

// ---------------------------------------------------------------------------------------------
// plain LRU (C06, C12, C15)

#[derive(Clone, Copy)]
pub struct LruM {
    pub cap: usize,
    pub l: ML,
}

impl LruM {
    pub fn put(&mut self, k: u8, v: u8) -> MPut {
        if let Some(old) = self.l.remove_key(k) {
            self.l.push_front(k, v);
            return MPut::Update(old);
        }
        if self.cap == 0 {
            // C12: a cache resized to capacity 0 hands the pair straight back
            return MPut::Evicted(k, v);
        }
        if self.l.n >= self.cap {
            let (ek, ev) = self.l.pop_back().unwrap();
            self.l.push_front(k, v);
            return MPut::Evicted(ek, ev);
        }
        self.l.push_front(k, v);
        MPut::Put
    }
    /// resize(n): returns the number of discarded entries, LRU first.
    pub fn resize(&mut self, n: usize) -> u64 {
        let mut ev = 0u64;
        let mut i = 0;
        while i < MAXN {
            if self.l.n > n {
                self.l.pop_back();
                ev += 1;
            }
            i += 1;
        }
        self.cap = n;
        ev
    }
}

// ---------------------------------------------------------------------------------------------
// segmented LRU (C07)

#[derive(Clone, Copy)]
pub struct SlruM {
    pub pcap: usize,
    pub tcap: usize,
    /// probationary
    pub p: ML,
    /// protected
    pub t: ML,
}

impl SlruM {
    pub fn val(&self, k: u8) -> Option<u8> {
        match self.t.val(k) {
            Some(v) => Some(v),
            None => self.p.val(k),
        }
    }
    pub fn has(&self, k: u8) -> bool {
        self.t.has(k) || self.p.has(k)
    }
    /// moves a probationary entry to the MRU end of protected, demoting protected's LRU to the
    /// MRU end of probationary when protected is full (never evicting).
    fn promote(&mut self, k: u8) {
        let (pk, pv) = {
            let i = self.p.find(k).unwrap();
            self.p.remove_at(i)
        };
        if self.t.n >= self.tcap {
            let (dk, dv) = self.t.pop_back().unwrap();
            self.p.push_front(dk, dv);
        }
        self.t.push_front(pk, pv);
    }
    /// get / get_mut
    pub fn access(&mut self, k: u8) -> Option<u8> {
        if let Some(v) = self.t.touch(k) {
            return Some(v);
        }
        if let Some(v) = self.p.val(k) {
            self.promote(k);
            return Some(v);
        }
        None
    }
    pub fn put(&mut self, k: u8, v: u8) -> MPut {
        if let Some(old) = self.t.touch(k) {
            self.t.set_val(k, v);
            return MPut::Update(old);
        }
        if let Some(old) = self.p.val(k) {
            self.promote(k);
            self.t.set_val(k, v);
            return MPut::Update(old);
        }
        if self.p.n >= self.pcap {
            let (ek, ev) = self.p.pop_back().unwrap();
            self.p.push_front(k, v);
            return MPut::Evicted(ek, ev);
        }
        self.p.push_front(k, v);
        MPut::Put
    }
    pub fn remove(&mut self, k: u8) -> Option<u8> {
        match self.p.remove_key(k) {
            Some(v) => Some(v),
            None => self.t.remove_key(k),
        }
    }
}

// ---------------------------------------------------------------------------------------------
// 2Q (C08)

#[derive(Clone, Copy)]
pub struct TwoQM {
    pub size: usize,
    /// recent quota = floor(size * recent_ratio)
    pub rs: usize,
    /// ghost bound = floor(size * ghost_ratio) >= 1
    pub gcap: usize,
    pub r: ML,
    pub f: ML,
    pub g: ML,
}

impl TwoQM {
    pub fn val(&self, k: u8) -> Option<u8> {
        match self.f.val(k) {
            Some(v) => Some(v),
            None => self.r.val(k),
        }
    }
    pub fn retained(&self, k: u8) -> bool {
        self.f.has(k) || self.r.has(k) || self.g.has(k)
    }
    /// get / get_mut: a second access moves a recent entry to the frequent queue
    pub fn access(&mut self, k: u8) -> Option<u8> {
        if let Some(v) = self.f.touch(k) {
            return Some(v);
        }
        if let Some(v) = self.r.remove_key(k) {
            self.f.push_front(k, v);
            return Some(v);
        }
        None
    }
    /// victim queue choice when the cache is full; `strict`: recent must be strictly over quota
    /// (ghost hit), otherwise "at quota" also counts (brand-new key). Falls back to the
    /// non-empty queue.
    fn take_victim(&mut self, strict: bool) -> (u8, u8) {
        let over = if strict { self.r.n > self.rs } else { self.r.n >= self.rs };
        let from_recent = if over { self.r.n > 0 } else { self.f.n == 0 };
        if from_recent {
            self.r.pop_back().unwrap()
        } else {
            self.f.pop_back().unwrap()
        }
    }
    /// Deterministic part of put; `revive_first` selects, for the corner "ghost hit while both the
    /// cache and the ghost list are full", whether the revived key leaves the ghost list before
    /// (true) or after (false) the victim enters it - the statement allows both.
    pub fn put(&mut self, k: u8, v: u8, revive_first: bool) -> MPut {
        if let Some(old) = self.f.touch(k) {
            self.f.set_val(k, v);
            return MPut::Update(old);
        }
        if let Some(old) = self.r.remove_key(k) {
            self.f.push_front(k, v);
            return MPut::Update(old);
        }
        let full = self.r.n + self.f.n >= self.size;
        if self.g.has(k) {
            if !full {
                let old = self.g.remove_key(k).unwrap();
                self.f.push_front(k, v);
                return MPut::Update(old);
            }
            let (vk, vv) = self.take_victim(true);
            if revive_first {
                let old = self.g.remove_key(k).unwrap();
                self.g.push_front(vk, vv);
                self.f.push_front(k, v);
                return MPut::Update(old);
            }
            let mut dropped = None;
            if self.g.n >= self.gcap {
                dropped = self.g.pop_back();
            }
            self.g.push_front(vk, vv);
            match dropped {
                Some((dk, dv)) if dk == k => {
                    // the ghost list pushed out the very key being revived
                    self.f.push_front(k, v);
                    MPut::Update(dv)
                }
                Some((dk, dv)) => {
                    let old = self.g.remove_key(k).unwrap();
                    self.f.push_front(k, v);
                    MPut::EvictedAndUpdate(dk, dv, old)
                }
                None => {
                    let old = self.g.remove_key(k).unwrap();
                    self.f.push_front(k, v);
                    MPut::Update(old)
                }
            }
        } else {
            if !full {
                self.r.push_front(k, v);
                return MPut::Put;
            }
            let (vk, vv) = self.take_victim(false);
            self.r.push_front(k, v);
            let mut dropped = None;
            if self.g.n >= self.gcap {
                dropped = self.g.pop_back();
            }
            self.g.push_front(vk, vv);
            match dropped {
                Some((dk, dv)) => MPut::Evicted(dk, dv),
                None => MPut::Put,
            }
        }
    }
}

// ---------------------------------------------------------------------------------------------
// ARC (C09).  Resident lists and p are deterministic; ghost lists are checked relationally by
// the harness (the statement lets ARC discard ghosts silently), so the model only says which
// entry becomes a ghost of which list.

#[derive(Clone, Copy)]
pub struct ArcM {
    pub size: usize,
    pub p: usize,
    /// recent (T1)
    pub t1: ML,
    /// frequent (T2)
    pub t2: ML,
    /// recent ghosts (B1)
    pub b1: ML,
    /// frequent ghosts (B2)
    pub b2: ML,
}

/// What the oracle prescribes for the ghost lists after a step.
#[derive(Clone, Copy)]
pub struct ArcGhost {
    /// entry that must now be the most recent ghost of B1 / B2
    pub to_b1: Option<(u8, u8)>,
    pub to_b2: Option<(u8, u8)>,
    /// key that must no longer be a ghost
    pub revived: Option<u8>,
}

impl ArcM {
    pub fn val(&self, k: u8) -> Option<u8> {
        match self.t1.val(k) {
            Some(v) => Some(v),
            None => self.t2.val(k),
        }
    }
    pub fn retained(&self, k: u8) -> bool {
        self.t1.has(k) || self.t2.has(k) || self.b1.has(k) || self.b2.has(k)
    }
    pub fn any_val(&self, k: u8) -> Option<u8> {
        if let Some(v) = self.val(k) {
            return Some(v);
        }
        match self.b1.val(k) {
            Some(v) => Some(v),
            None => self.b2.val(k),
        }
    }
    /// get / get_mut
    pub fn access(&mut self, k: u8) -> Option<u8> {
        if let Some(v) = self.t1.remove_key(k) {
            self.t2.push_front(k, v);
            return Some(v);
        }
        self.t2.touch(k)
    }
    /// victim selection with the (already adapted) p; falls back to the non-empty list
    fn replace(&mut self, b2_hit: bool, gh: &mut ArcGhost) {
        let prefer_t1 = self.t1.n > self.p || (self.t1.n == self.p && b2_hit);
        let from_t1 = if prefer_t1 { self.t1.n > 0 } else { self.t2.n == 0 };
        if from_t1 {
            if let Some(e) = self.t1.pop_back() {
                gh.to_b1 = Some(e);
            }
        } else if let Some(e) = self.t2.pop_back() {
            gh.to_b2 = Some(e);
        }
    }
    pub fn put(&mut self, k: u8, v: u8) -> (MPut, ArcGhost) {
        let mut gh = ArcGhost {
            to_b1: None,
            to_b2: None,
            revived: None,
        };
        if let Some(old) = self.t1.remove_key(k) {
            self.t2.push_front(k, v);
            return (MPut::Update(old), gh);
        }
        if let Some(old) = self.t2.touch(k) {
            self.t2.set_val(k, v);
            return (MPut::Update(old), gh);
        }
        let full = self.t1.n + self.t2.n >= self.size;
        let (n1, n2) = (self.b1.n, self.b2.n);
        if let Some(old) = self.b1.val(k) {
            let delta = if n2 > n1 { n2 / n1 } else { 1 };
            self.p = if self.p + delta >= self.size { self.size } else { self.p + delta };
            if full {
                self.replace(false, &mut gh);
            }
            gh.revived = Some(k);
            self.t2.push_front(k, v);
            return (MPut::Update(old), gh);
        }
        if let Some(old) = self.b2.val(k) {
            let delta = if n1 > n2 { n1 / n2 } else { 1 };
            self.p = if delta >= self.p { 0 } else { self.p - delta };
            if full {
                self.replace(true, &mut gh);
            }
            gh.revived = Some(k);
            self.t2.push_front(k, v);
            return (MPut::Update(old), gh);
        }
        if full {
            self.replace(false, &mut gh);
        }
        self.t1.push_front(k, v);
        (MPut::Put, gh)
    }
}
