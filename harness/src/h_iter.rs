//! Iterators (C14): every iterator kind of RawLRU from an arbitrary state, a symbolic interleaving
//! of next / next_back of length len()+2, against a two-cursor model; plus the per-list iterator
//! families of TwoQueueCache and AdaptiveCache against the inner lists.
use crate::gen;
use crate::model::*;
use crate::util::*;
use caches::Cache;

/// expected element at position i of the sequence an iterator must produce
fn at(m: &ML, rev: bool, i: usize) -> (u8, u8) {
    let j = if rev { m.n - 1 - i } else { i };
    (m.k[j], m.v[j])
}

macro_rules! drive {
    ($it:expr, $m:expr, $rev:expr, |$x:ident| $proj:expr, $clone_check:expr) => {{
        let m: &ML = $m;
        let mut it = $it;
        let mut lo = 0usize;
        let mut hi = m.n;
        let mut ok = it.len() == m.n && it.size_hint() == (m.n, Some(m.n));
        let mut step = 0;
        while step < MAXN + 1 {
            if step < m.n + 2 {
                let back: bool = kani::any();
                let got = if back { it.next_back() } else { it.next() };
                if lo < hi {
                    let e = if back {
                        hi -= 1;
                        at(m, $rev, hi)
                    } else {
                        lo += 1;
                        at(m, $rev, lo - 1)
                    };
                    match got {
                        Some($x) => {
                            let (pk, pv): (Option<u8>, Option<u8>) = $proj;
                            ok = ok && (pk.is_none() || pk == Some(e.0)) && (pv.is_none() || pv == Some(e.1));
                        }
                        None => ok = false,
                    }
                } else {
                    // exhausted stays exhausted
                    ok = ok && got.is_none();
                }
                ok = ok && it.len() == hi - lo && it.size_hint() == (hi - lo, Some(hi - lo));
            }
            step += 1;
        }
        let _ = $clone_check;
        ok && it.count() == hi - lo
    }};
}

fn shared(cap: usize, n: usize, kind: u8) {
    let (c, m) = gen::raw(cap, n);
    let m = m.l;
    let ok = match kind {
        0 => drive!(c.iter(), &m, false, |x| (Some(*x.0), Some(*x.1)), ()),
        1 => drive!(c.iter_lru(), &m, true, |x| (Some(*x.0), Some(*x.1)), ()),
        2 => drive!(c.keys(), &m, false, |x| (Some(*x), None), ()),
        3 => drive!(c.keys_lru(), &m, true, |x| (Some(*x), None), ()),
        4 => drive!(c.values(), &m, false, |x| (None, Some(*x)), ()),
        5 => drive!(c.values_lru(), &m, true, |x| (None, Some(*x)), ()),
        _ => drive!((&c).into_iter(), &m, false, |x| (Some(*x.0), Some(*x.1)), ()),
    };
    // clones advance independently: advance the original by one, the clone still sees everything
    let clone_ok = match kind {
        0 => {
            let mut a = c.iter();
            let b = a.clone();
            let _ = a.next();
            b.count() == m.n && a.count() + (m.n > 0) as usize == m.n
        }
        1 => {
            let mut a = c.iter_lru();
            let b = a.clone();
            let _ = a.next_back();
            b.len() == m.n && a.len() + (m.n > 0) as usize == m.n
        }
        2 => {
            let mut a = c.keys();
            let b = a.clone();
            let _ = a.next();
            b.count() == m.n
        }
        3 => {
            let mut a = c.keys_lru();
            let b = a.clone();
            let _ = a.next();
            b.count() == m.n
        }
        4 => {
            let mut a = c.values();
            let b = a.clone();
            let _ = a.next();
            b.count() == m.n
        }
        5 => {
            let mut a = c.values_lru();
            let b = a.clone();
            let _ = a.next();
            b.count() == m.n
        }
        _ => true,
    };
    // iterating changed nothing
    let s = snap(&c);
    witness!(n >= 2, true, "W: list with at least two entries");
    checks! {
        "[C14] shared iterator: each entry exactly once in the documented order from both ends, exact len/size_hint/count, exhausted stays exhausted" => ok;
        "[C14] a cloned iterator advances independently of the original" => clone_ok;
        "[C13][C14] iterating leaves order and values unchanged" => s.same(&m) && c.verif_audit() == 0;
    }
    core::mem::forget(c);
}

fn mutable(cap: usize, n: usize, kind: u8) {
    let (mut c, m) = gen::raw(cap, n);
    let mut m = m.l;
    let w: u8 = kani::any();
    let ok = match kind {
        0 => drive!(c.iter_mut(), &m, false, |x| (Some(*x.0), Some(*x.1)), ()),
        1 => drive!(c.iter_lru_mut(), &m, true, |x| (Some(*x.0), Some(*x.1)), ()),
        2 => drive!(c.values_mut(), &m, false, |x| (None, Some(*x)), ()),
        3 => drive!(c.values_lru_mut(), &m, true, |x| (None, Some(*x)), ()),
        _ => drive!((&mut c).into_iter(), &m, false, |x| (Some(*x.0), Some(*x.1)), ()),
    };
    // writes through a mutable iterator are visible afterwards and do not change the order
    let mut wrote = false;
    match kind {
        0 | 4 => {
            if let Some((_, v)) = c.iter_mut().next() {
                *v = w;
                wrote = true;
            }
            if wrote {
                m.v[0] = w;
            }
        }
        1 => {
            if let Some((_, v)) = c.iter_lru_mut().next() {
                *v = w;
                wrote = true;
            }
            if wrote {
                m.v[m.n - 1] = w;
            }
        }
        2 => {
            if let Some(v) = c.values_mut().next_back() {
                *v = w;
                wrote = true;
            }
            if wrote {
                m.v[m.n - 1] = w;
            }
        }
        _ => {
            if let Some(v) = c.values_lru_mut().next_back() {
                *v = w;
                wrote = true;
            }
            if wrote {
                m.v[0] = w;
            }
        }
    }
    let s = snap(&c);
    let k0 = if m.n > 0 { m.k[0] } else { 0 };
    let peek_ok = m.n == 0 || c.peek(&k0).copied() == Some(m.v[0]);
    checks! {
        "[C14] mutable iterator: each entry exactly once in the documented order from both ends, exact len/size_hint/count" => ok;
        "[C14] a write through a mutable iterator is visible to later reads and leaves the order unchanged" => wrote == (m.n > 0) && s.same(&m) && peek_ok && c.verif_audit() == 0;
    }
    core::mem::forget(c);
}

/// projections of one inner list through the 10 accessor kinds of a composite cache
macro_rules! family_ok {
    ($c:expr, $m:expr, $keys:ident, $keys_lru:ident, $values:ident, $values_lru:ident, $values_mut:ident,
     $values_lru_mut:ident, $iter:ident, $iter_lru:ident, $iter_mut:ident, $iter_lru_mut:ident) => {{
        let m: &ML = $m;
        let mut ok = true;
        ok = ok && drive!($c.$keys(), m, false, |x| (Some(*x), None), ());
        ok = ok && drive!($c.$keys_lru(), m, true, |x| (Some(*x), None), ());
        ok = ok && drive!($c.$values(), m, false, |x| (None, Some(*x)), ());
        ok = ok && drive!($c.$values_lru(), m, true, |x| (None, Some(*x)), ());
        ok = ok && drive!($c.$values_mut(), m, false, |x| (None, Some(*x)), ());
        ok = ok && drive!($c.$values_lru_mut(), m, true, |x| (None, Some(*x)), ());
        ok = ok && drive!($c.$iter(), m, false, |x| (Some(*x.0), Some(*x.1)), ());
        ok = ok && drive!($c.$iter_lru(), m, true, |x| (Some(*x.0), Some(*x.1)), ());
        ok = ok && drive!($c.$iter_mut(), m, false, |x| (Some(*x.0), Some(*x.1)), ());
        ok = ok && drive!($c.$iter_lru_mut(), m, true, |x| (Some(*x.0), Some(*x.1)), ());
        ok
    }};
}

fn twoq_lists(which: u8) {
    let (mut c, m) = crate::h_2q::gen_2q(2, 2, None, 1, 1, 2, false);
    let ok = match which {
        0 => family_ok!(c, &m.r, recent_keys, recent_keys_lru, recent_values, recent_values_lru, recent_values_mut,
                        recent_values_lru_mut, recent_iter, recent_iter_lru, recent_iter_mut, recent_iter_lru_mut),
        1 => family_ok!(c, &m.f, frequent_keys, frequent_keys_lru, frequent_values, frequent_values_lru, frequent_values_mut,
                        frequent_values_lru_mut, frequent_iter, frequent_iter_lru, frequent_iter_mut, frequent_iter_lru_mut),
        _ => family_ok!(c, &m.g, ghost_keys, ghost_keys_lru, ghost_values, ghost_values_lru, ghost_values_mut,
                        ghost_values_lru_mut, ghost_iter, ghost_iter_lru, ghost_iter_mut, ghost_iter_lru_mut),
    };
    checks! {
        "[C14] every per-list iterator of TwoQueueCache yields exactly the corresponding inner list, in order, with exact lengths" => ok;
    }
    core::mem::forget(c);
}

fn arc_lists(which: u8) {
    let (mut c, m) = crate::h_arc::gen_arc(2, None, [1, 1, 2, 1], false);
    let ok = match which {
        0 => family_ok!(c, &m.t1, recent_keys, recent_keys_lru, recent_values, recent_values_lru, recent_values_mut,
                        recent_values_lru_mut, recent_iter, recent_iter_lru, recent_iter_mut, recent_iter_lru_mut),
        1 => family_ok!(c, &m.t2, frequent_keys, frequent_keys_lru, frequent_values, frequent_values_lru, frequent_values_mut,
                        frequent_values_lru_mut, frequent_iter, frequent_iter_lru, frequent_iter_mut, frequent_iter_lru_mut),
        2 => family_ok!(c, &m.b1, recent_evict_keys, recent_evict_keys_lru, recent_evict_values, recent_evict_values_lru,
                        recent_evict_values_mut, recent_evict_values_lru_mut, recent_evict_iter, recent_evict_iter_lru,
                        recent_evict_iter_mut, recent_evict_iter_lru_mut),
        _ => family_ok!(c, &m.b2, frequent_evict_keys, frequent_evict_keys_lru, frequent_evict_values, frequent_evict_values_lru,
                        frequent_evict_values_mut, frequent_evict_values_lru_mut, frequent_evict_iter, frequent_evict_iter_lru,
                        frequent_evict_iter_mut, frequent_evict_iter_lru_mut),
    };
    checks! {
        "[C14] every per-list iterator of AdaptiveCache yields exactly the corresponding inner list, in order, with exact lengths" => ok;
    }
    core::mem::forget(c);
}

macro_rules! iter_family {
    ($($name:ident: $cap:expr, $n:expr;)*) => {
        $(
            pub(crate) mod $name {
                macro_rules! sh { ($f:ident, $k:expr) => {
                    #[kani::proof]
                    #[kani::unwind(7)]
                    pub(crate) fn $f() { super::shared($cap, $n, $k) }
                } }
                sh!(iter, 0);
                sh!(iter_lru, 1);
                sh!(keys, 2);
                sh!(keys_lru, 3);
                sh!(values, 4);
                sh!(values_lru, 5);
                sh!(into_iter_ref, 6);
                macro_rules! mu { ($f:ident, $k:expr) => {
                    #[kani::proof]
                    #[kani::unwind(7)]
                    pub(crate) fn $f() { super::mutable($cap, $n, $k) }
                } }
                mu!(iter_mut, 0);
                mu!(iter_lru_mut, 1);
                mu!(values_mut, 2);
                mu!(values_lru_mut, 3);
                mu!(into_iter_mut, 4);
            }
        )*
    };
}

iter_family! {
    n0: 1, 0;
    n1: 1, 1;
    n2: 2, 2;
    n3: 3, 3;
}

macro_rules! lists {
    ($f:ident, $g:ident, $w:expr) => {
        #[kani::proof]
        #[kani::unwind(7)]
        pub(crate) fn $f() {
            $g($w)
        }
    };
}
lists!(twoq_recent, twoq_lists, 0);
lists!(twoq_frequent, twoq_lists, 1);
lists!(twoq_ghost, twoq_lists, 2);
lists!(arc_recent, arc_lists, 0);
lists!(arc_frequent, arc_lists, 1);
lists!(arc_recent_evict, arc_lists, 2);
lists!(arc_frequent_evict, arc_lists, 3);
