//! F(AdaptiveCache): one real operation from an arbitrary state of a concrete shape
//! (size, |T1|, |T2|, |B1|, |B2|) against ArcM; p symbolic (enumerated where it steers control).
//! Keys are the constants 10.., 20.., 30.., 40.. per list (pattern enumeration, DESIGN 2.4);
//! `symkeys_*` variants use symbolic pairwise-distinct keys.  Serves C01 C02 C03 C05 C09 C12 C13.
use crate::gen;
use crate::model::*;
use crate::util::*;
use caches::{AdaptiveCache, Cache};
use hashbrown::DefaultHashBuilder as H;

pub type Arc = AdaptiveCache<u8, u8, H, H, H, H>;
pub const BASES: [u8; 4] = [10, 20, 30, 40];

pub fn gen_arc(size: usize, cp: Option<usize>, n: [usize; 4], symk: bool) -> (Arc, ArcM) {
    let p: usize = match cp {
        Some(x) => x,
        None => kani::any(),
    };
    kani::assume(p <= size);
    let (t1, t1m, t2, t2m, b1, b1m, b2, b2m);
    if symk {
        (t1, t1m) = gen::part(size, n[0], &[]);
        (t2, t2m) = gen::part(size, n[1], &[&t1m]);
        (b1, b1m) = gen::part(size, n[2], &[&t1m, &t2m]);
        (b2, b2m) = gen::part(size, n[3], &[&t1m, &t2m, &b1m]);
    } else {
        (t1, t1m) = gen::part_conc(size, n[0], BASES[0]);
        (t2, t2m) = gen::part_conc(size, n[1], BASES[1]);
        (b1, b1m) = gen::part_conc(size, n[2], BASES[2]);
        (b2, b2m) = gen::part_conc(size, n[3], BASES[3]);
    }
    (
        AdaptiveCache::verif_from_parts(size, p, t1, b1, t2, b2),
        ArcM {
            size,
            p,
            t1: t1m,
            t2: t2m,
            b1: b1m,
            b2: b2m,
        },
    )
}

pub struct APost {
    pub audit: bool,
    pub size: bool,
    pub s: [ML; 4],
}

pub fn post_arc(c: &Arc, size: usize) -> APost {
    let (t1, b1, t2, b2) = c.verif_parts();
    let s = [snap(t1), snap(t2), snap(b1), snap(b2)];
    let mut dis = true;
    let mut i = 0;
    while i < 4 {
        dis = dis && nodup(&s[i]);
        let mut j = i + 1;
        while j < 4 {
            dis = dis && disjoint(&s[i], &s[j]);
            j += 1;
        }
        i += 1;
    }
    let ok = dis
        && s[0].n + s[1].n <= size
        && s[2].n <= size
        && s[3].n <= size
        && c.len() == s[0].n + s[1].n
        && c.len() <= c.cap()
        && c.cap() == size
        && c.partition() <= size
        && c.recent_len() == s[0].n
        && c.frequent_len() == s[1].n
        && c.recent_evict_len() == s[2].n
        && c.frequent_evict_len() == s[3].n
        && t1.cap() == size
        && t2.cap() == size
        && b1.cap() == size
        && b2.cap() == size
        && c.is_empty() == (s[0].n + s[1].n + s[2].n + s[3].n == 0);
    APost {
        audit: t1.verif_audit() == 0 && t2.verif_audit() == 0 && b1.verif_audit() == 0 && b2.verif_audit() == 0,
        size: ok,
        s,
    }
}

/// relational ghost-list check (DESIGN 2.5): the list after the step is an order-preserving
/// sub-list of (just-evicted entry, then the old ghosts without the revived key).  On a ghost
/// hit nothing trims the lists, so the just-evicted entry must then be the newest ghost; on a
/// brand-new key ARC may trim it away again at once (the statement allows silent ghost loss).
fn ghost_ok(pre: &ML, post: &ML, newest: Option<(u8, u8)>, must_keep: bool, revived: Option<u8>) -> bool {
    let mut allowed = *pre;
    if let Some(k) = revived {
        allowed.remove_key(k);
        if post.has(k) {
            return false;
        }
    }
    let mut rest = *post;
    if let Some((k, v)) = newest {
        let kept = post.n >= 1 && post.k[0] == k && post.v[0] == v;
        if kept {
            rest.remove_at(0);
        } else if must_keep || post.has(k) {
            return false;
        }
    }
    rest.is_sublist_of(&allowed)
}

fn total(n: &[usize; 4]) -> usize {
    n[0] + n[1] + n[2] + n[3]
}

fn step_look(size: usize, n: [usize; 4]) {
    let mut pat = 0;
    while pat <= total(&n) {
        look_one(size, n, Some(pat));
        pat += 1;
    }
}

fn look_one(size: usize, n: [usize; 4], pat: Option<usize>) {
    let (mut c, mut m) = gen_arc(size, None, n, pat.is_none());
    let pre = m;
    let k: u8 = match pat {
        Some(p) => gen::pattern_key(p, &n, &BASES),
        None => kani::any(),
    };
    let w: u8 = kani::any();
    let write: bool = kani::any();
    let op: u8 = kani::any();
    kani::assume(op < 6);
    let hit = m.val(k);
    let mut read_only = false;
    let res_ok = match op {
        0 => {
            let r = c.get(&k).copied();
            m.access(k);
            r == hit
        }
        1 => {
            let r = c.get_mut(&k);
            let ok = r.as_deref().copied() == hit;
            m.access(k);
            if write {
                if let Some(x) = r {
                    *x = w;
                    m.t2.set_val(k, w);
                }
            }
            ok
        }
        2 => {
            read_only = true;
            c.peek(&k).copied() == hit
        }
        3 => {
            read_only = !write;
            let r = c.peek_mut(&k);
            let ok = r.as_deref().copied() == hit;
            if write {
                if let Some(x) = r {
                    *x = w;
                    m.t1.set_val(k, w);
                    m.t2.set_val(k, w);
                }
            }
            ok
        }
        4 => {
            read_only = true;
            c.contains(&k) == hit.is_some()
        }
        _ => {
            let r = c.remove(&k);
            if hit.is_some() {
                m.t1.remove_key(k);
                m.t2.remove_key(k);
                r == hit
            } else if let Some(gv) = m.b1.val(k) {
                // removing a ghost may hand back its value or None (DESIGN 2.5)
                if r.is_some() {
                    m.b1.remove_key(k);
                }
                r.is_none() || r == Some(gv)
            } else if let Some(gv) = m.b2.val(k) {
                if r.is_some() {
                    m.b2.remove_key(k);
                }
                r.is_none() || r == Some(gv)
            } else {
                r.is_none()
            }
        }
    };
    let p = post_arc(&c, size);
    let keys = p.s[0].same_keys(&m.t1) && p.s[1].same_keys(&m.t2) && p.s[2].same_keys(&m.b1) && p.s[3].same_keys(&m.b2);
    let vals = keys && p.s[0].same_vals(&m.t1) && p.s[1].same_vals(&m.t2) && p.s[2].same_vals(&m.b1) && p.s[3].same_vals(&m.b2);
    let p_ok = c.partition() == pre.p;
    witness!(n[0] >= 1, op == 0 && pre.t1.has(k), "W: get moves a recent entry to the frequent list");
    witness!(n[1] >= 2, op == 0 && pre.t2.has(k) && pre.t2.k[0] != k, "W: get refreshes a frequent entry");
    witness!(n[2] >= 1, op == 0 && pre.b1.has(k), "W: get on a ghost key (miss)");
    witness!(n[3] >= 1, op == 5 && pre.b2.has(k), "W: remove on a ghost key");
    checks! {
        "[C02] lookup result equals the value last stored for the key (ghost keys are not resident)" => res_ok;
        "[C03] list/index audit of the four lists after a lookup step" => p.audit;
        "[C01] recent+frequent <= size, ghosts <= size, key-disjoint lists, 0<=p<=size, len()/is_empty()" => p.size;
        "[C09] list orders after get/get_mut/remove (second access moves recent -> frequent MRU); p unchanged" => read_only || (keys && p_ok);
        "[C02] stored values after the step" => read_only || vals;
        "[C13] read-only operation left the four lists and p unchanged" => !read_only || (keys && vals && p_ok);
    }
    core::mem::forget(c);
}

fn step_put(size: usize, n: [usize; 4]) {
    let full = n[0] + n[1] >= size;
    let mut p = 0;
    while p <= size {
        let mut pat = 0;
        while pat <= total(&n) {
            // p steers control only when a victim must be chosen or p is adapted: key not resident
            if p == 0 || pat >= n[0] + n[1] {
                put_one(size, n, Some(pat), Some(p));
            }
            pat += 1;
        }
        p += 1;
    }
    let _ = full;
}

fn put_one(size: usize, n: [usize; 4], pat: Option<usize>, cp: Option<usize>) {
    let (mut c, m) = gen_arc(size, cp, n, pat.is_none());
    let pre = m;
    let k: u8 = match pat {
        Some(p) => gen::pattern_key(p, &n, &BASES),
        None => kani::any(),
    };
    let v: u8 = kani::any();
    let r = c.put(k, v);
    let mut mm = m;
    let (mr, gh) = mm.put(k, v);
    let p = post_arc(&c, size);
    let res_ok = pr_eq(&r, &mr);
    let resident_keys = p.s[0].same_keys(&mm.t1) && p.s[1].same_keys(&mm.t2);
    let resident_vals = resident_keys && p.s[0].same_vals(&mm.t1) && p.s[1].same_vals(&mm.t2);
    let p_ok = c.partition() == mm.p;
    let ghost_hit = gh.revived.is_some();
    let ghosts_ok = ghost_ok(&pre.b1, &p.s[2], gh.to_b1, ghost_hit, gh.revived)
        && ghost_ok(&pre.b2, &p.s[3], gh.to_b2, ghost_hit, gh.revived);
    let victim = match (gh.to_b1, gh.to_b2) {
        (Some(e), _) => Some(e.0),
        (_, Some(e)) => Some(e.0),
        _ => None,
    };
    // C12 on the retained set: nothing may leave unreported except ghosts; k becomes resident
    let q: u8 = kani::any();
    let was_res = pre.t1.has(q) || pre.t2.has(q);
    let is_any = p.s[0].has(q) || p.s[1].has(q) || p.s[2].has(q) || p.s[3].has(q);
    let no_silent_loss = !was_res || q == k || is_any || victim == Some(q) || {
        // a resident entry may only leave by being reported (or as the ghosted victim, which ARC
        // may trim silently)
        match r {
            caches::PutResult::Evicted { key, .. } => key == q,
            caches::PutResult::EvictedAndUpdate { evicted, .. } => evicted.0 == q,
            _ => false,
        }
    };
    let no_invention = !is_any || pre.retained(q) || q == k;
    let old = pre.any_val(k);
    let variant_ok = match r {
        caches::PutResult::Put => old.is_none(),
        caches::PutResult::Update(o) => old == Some(o),
        caches::PutResult::Evicted { key, value } => old.is_none() && key != k && pre.any_val(key) == Some(value),
        caches::PutResult::EvictedAndUpdate { evicted, update } => {
            old == Some(update) && evicted.0 != k && pre.any_val(evicted.0) == Some(evicted.1)
        }
    };
    let resident_ok = (p.s[0].val(k) == Some(v)) != (p.s[1].val(k) == Some(v)) && !p.s[2].has(k) && !p.s[3].has(k);
    let full = n[0] + n[1] >= size;
    witness!(full && n[0] >= 1, !pre.retained(k) && pre.t1.n > pre.p, "W: new key, cache full, victim from recent");
    witness!(full && n[1] >= 1, !pre.retained(k) && pre.t1.n <= pre.p, "W: new key, cache full, victim from frequent");
    witness!(full && n[1] == 0, !pre.retained(k) && pre.t1.n <= pre.p, "W: new key, cache full, frequent empty (fallback to recent)");
    witness!(n[2] >= 1, pre.b1.has(k), "W: hit on the recent ghost list raises p");
    witness!(n[3] >= 1, pre.b2.has(k), "W: hit on the frequent ghost list lowers p");
    witness!(n[2] >= 1 && n[2] == size && full, pre.b1.has(k) && pre.b1.k[pre.b1.n - 1] == k, "W: ghost hit on the LRU of a full ghost list while the cache is full");
    witness!(n[0] >= 1, pre.t1.has(k), "W: put on a recent key promotes it");
    checks! {
        "[C09][C12] put: PutResult equals the ARC oracle's" => res_ok;
        "[C09] put: recent and frequent lists equal the oracle's (victim rule with fallback, revival into frequent)" => resident_keys;
        "[C09] put: adaptation target p (+-max(1, ratio), capped at size, floored at 0)" => p_ok;
        "[C09] put: ghost lists = (evicted entry as newest ghost, mandatory on a ghost hit) + old ghosts in order, only dropped never reordered; revived key no longer a ghost" => ghosts_ok;
        "[C02] stored values after put" => !resident_keys || resident_vals;
        "[C12] PutResult variant/payload is truthful w.r.t. the retained set before the put" => variant_ok;
        "[C12] no resident entry leaves unreported, nothing appears from nowhere" => no_silent_loss && no_invention;
        "[C12][C02] after the put the key is resident exactly once with the stored value and is no ghost" => resident_ok;
        "[C03] list/index audit of the four lists after put" => p.audit;
        "[C01] recent+frequent <= size, ghosts <= size, key-disjoint lists, 0<=p<=size, len()/is_empty()" => p.size;
    }
    core::mem::forget(c);
}

fn step_bulk(size: usize, n: [usize; 4]) {
    let (mut c, m) = gen_arc(size, None, n, false);
    c.purge();
    let p = post_arc(&c, size);
    let empty = p.s[0].n + p.s[1].n + p.s[2].n + p.s[3].n == 0;
    checks! {
        "[C02][C01] purge empties the four lists" => empty;
        "[C09] purge leaves p within 0..=size" => c.partition() <= m.size;
        "[C03] list/index audit after purge" => p.audit;
        "[C01] size accounting after purge" => p.size;
    }
    core::mem::forget(c);
}

/// base case
#[kani::proof]
#[kani::unwind(6)]
pub(crate) fn ctor() {
    let a: usize = kani::any();
    kani::assume(a <= 3);
    let via_builder: bool = kani::any();
    let r = if via_builder {
        caches::AdaptiveCacheBuilder::new(a).finalize::<u8, u8>()
    } else {
        AdaptiveCache::<u8, u8>::new(a)
    };
    match r {
        Err(e) => {
            checks! {
                "[C05] AdaptiveCache rejects exactly size 0 with InvalidSize(0)" => a == 0 && e == caches::lru::CacheError::InvalidSize(0);
            }
        }
        Ok(c) => {
            let (t1, b1, t2, b2) = c.verif_parts();
            let ok = c.len() == 0 && c.is_empty() && c.cap() == a && c.partition() == 0
                && t1.cap() == a && t2.cap() == a && b1.cap() == a && b2.cap() == a
                && t1.verif_audit() == 0 && t2.verif_audit() == 0 && b1.verif_audit() == 0 && b2.verif_audit() == 0
                && t1.len() + t2.len() + b1.len() + b2.len() == 0;
            checks! {
                "[C05] AdaptiveCache accepts all sizes >= 1" => a >= 1;
                "[C01][C03][C09] a new AdaptiveCache is empty, well formed, p == 0, list caps == size" => ok;
            }
            core::mem::forget(c);
        }
    }
}

macro_rules! arc_family {
    ($($name:ident: $s:expr, $a:expr, $b:expr, $c:expr, $d:expr;)*) => {
        $(
            pub(crate) mod $name {
                #[kani::proof]
                #[kani::unwind(9)]
                pub(crate) fn look() {
                    super::step_look($s, [$a, $b, $c, $d])
                }
                #[kani::proof]
                #[kani::unwind(9)]
                pub(crate) fn put() {
                    super::step_put($s, [$a, $b, $c, $d])
                }
                #[kani::proof]
                #[kani::unwind(6)]
                pub(crate) fn symkeys_put() {
                    super::put_one($s, [$a, $b, $c, $d], None, None)
                }
                #[kani::proof]
                #[kani::unwind(6)]
                pub(crate) fn symkeys_look() {
                    super::look_one($s, [$a, $b, $c, $d], None)
                }
                #[kani::proof]
                #[kani::unwind(6)]
                pub(crate) fn bulk() {
                    super::step_bulk($s, [$a, $b, $c, $d])
                }
            }
        )*
    };
}

include!("h_arc_family.rs");
