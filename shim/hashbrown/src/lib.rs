//! Contract model of `hashbrown` 0.15 restricted to the API surface al8n/caches-rs uses.
//!
//! It is *not* a hash table: it is an association list in a fixed array that honours the
//! documented `HashMap` contract.  What it keeps from a real table (so that the solver sees at
//! least the memory accesses a real table would make):
//!   * every lookup hashes the probe key with the supplied `BuildHasher` (dereferences it) and
//!     compares it (through `Borrow` + `Eq`) with stored keys until the first match - the
//!     behaviour of a real table whose hasher makes every key collide;
//!   * `insert` panics when the fixed bound is exceeded (never silently truncates);
//!   * iteration order (`iter`, `values`, `drain`, `into_iter`) is NOT specified: under Kani every
//!     `next()` picks an arbitrary not-yet-visited entry (`kani::any`), natively the order is
//!     controlled by `shim_set_order`.
#![no_std]

use core::borrow::Borrow;
use core::hash::{BuildHasher, Hash, Hasher};

const fn parse_cap(s: Option<&str>) -> usize {
    match s {
        None => 0,
        Some(s) => {
            let b = s.as_bytes();
            let mut i = 0;
            let mut n = 0usize;
            while i < b.len() {
                n = n * 10 + (b[i] - b'0') as usize;
                i += 1;
            }
            n
        }
    }
}

/// Maximum number of live entries of one map (build-time constant, env `SHIM_CAP`).
pub const SHIM_CAP: usize = {
    let n = parse_cap(option_env!("SHIM_CAP"));
    if n == 0 {
        4
    } else {
        n
    }
};

// ---------------------------------------------------------------------------------------------
// nondeterminism channel

#[cfg(not(kani))]
mod order {
    use core::sync::atomic::{AtomicUsize, Ordering};
    pub static ORDER: AtomicUsize = AtomicUsize::new(usize::MAX);
    pub fn get() -> usize {
        let v = ORDER.load(Ordering::Relaxed);
        if v != usize::MAX {
            return v;
        }
        // default taken from the build-time environment (SHIM_ORDER), 0 when unset
        super::parse_cap(option_env!("SHIM_ORDER")) % 1_000_000
    }
}

/// Native builds only: choose the iteration order. 0 = slot order, 1 = reverse slot order,
/// n >= 2 = slot order rotated by n.
#[cfg(not(kani))]
pub fn shim_set_order(n: usize) {
    order::ORDER.store(n, core::sync::atomic::Ordering::Relaxed)
}

/// Picks the next slot to visit among the occupied, unvisited ones.
fn pick(occupied: &[bool; SHIM_CAP], visited: &[bool; SHIM_CAP]) -> usize {
    #[cfg(kani)]
    {
        let i: usize = kani::any();
        kani::assume(i < SHIM_CAP);
        kani::assume(occupied[i] && !visited[i]);
        i
    }
    #[cfg(not(kani))]
    {
        let mode = order::get();
        let mut j = 0;
        while j < SHIM_CAP {
            let i = match mode {
                0 => j,
                1 => SHIM_CAP - 1 - j,
                n => (j + n) % SHIM_CAP,
            };
            if occupied[i] && !visited[i] {
                return i;
            }
            j += 1;
        }
        unreachable!("pick called with nothing left")
    }
}

// ---------------------------------------------------------------------------------------------
// hasher

/// Stand-in for hashbrown's default hash builder: deterministic, stateless.
#[derive(Clone, Copy, Debug, Default)]
pub struct DefaultHashBuilder;

/// The hasher built by [`DefaultHashBuilder`]: a multiply-xor fold (value never used by the
/// model's lookups, which resolve as under total collision).
#[derive(Clone, Copy, Debug, Default)]
pub struct ShimHasher(u64);

impl ShimHasher {
    #[inline]
    fn mix(&mut self, v: u64) {
        // under Kani the value is irrelevant (lookups resolve as under total collision): keep the
        // fold free of multipliers so the solver does not pay for it
        #[cfg(kani)]
        {
            self.0 ^= v;
        }
        #[cfg(not(kani))]
        {
            self.0 = (self.0 ^ v).wrapping_mul(0x100_0000_01b3).rotate_left(5);
        }
    }
}

impl Hasher for ShimHasher {
    #[inline]
    fn finish(&self) -> u64 {
        self.0
    }
    fn write(&mut self, bytes: &[u8]) {
        let mut i = 0;
        while i < bytes.len() {
            self.mix(bytes[i] as u64);
            i += 1;
        }
    }
    #[inline]
    fn write_u8(&mut self, i: u8) {
        self.mix(i as u64)
    }
    #[inline]
    fn write_u16(&mut self, i: u16) {
        self.mix(i as u64)
    }
    #[inline]
    fn write_u32(&mut self, i: u32) {
        self.mix(i as u64)
    }
    #[inline]
    fn write_u64(&mut self, i: u64) {
        self.mix(i)
    }
    #[inline]
    fn write_usize(&mut self, i: usize) {
        self.mix(i as u64)
    }
    #[inline]
    fn write_i8(&mut self, i: i8) {
        self.mix(i as u8 as u64)
    }
    #[inline]
    fn write_i16(&mut self, i: i16) {
        self.mix(i as u16 as u64)
    }
    #[inline]
    fn write_i32(&mut self, i: i32) {
        self.mix(i as u32 as u64)
    }
    #[inline]
    fn write_i64(&mut self, i: i64) {
        self.mix(i as u64)
    }
    #[inline]
    fn write_isize(&mut self, i: isize) {
        self.mix(i as u64)
    }
}

impl BuildHasher for DefaultHashBuilder {
    type Hasher = ShimHasher;
    #[inline]
    fn build_hasher(&self) -> ShimHasher {
        ShimHasher(0xcbf2_9ce4_8422_2325)
    }
}

// ---------------------------------------------------------------------------------------------
// map

/// Contract model of `hashbrown::HashMap`.
pub struct HashMap<K, V, S = DefaultHashBuilder> {
    slots: [Option<(K, V)>; SHIM_CAP],
    len: usize,
    hash_builder: S,
}

fn empty_slots<K, V>() -> [Option<(K, V)>; SHIM_CAP] {
    core::array::from_fn(|_| None)
}

impl<K, V> HashMap<K, V, DefaultHashBuilder> {
    /// Empty map.
    pub fn new() -> Self {
        Self::with_hasher(DefaultHashBuilder)
    }
    /// Empty map (capacity hint ignored).
    pub fn with_capacity(_cap: usize) -> Self {
        Self::with_hasher(DefaultHashBuilder)
    }
}

impl<K, V, S: Default> Default for HashMap<K, V, S> {
    fn default() -> Self {
        Self::with_hasher(S::default())
    }
}

impl<K: Clone, V: Clone, S: Clone> Clone for HashMap<K, V, S> {
    fn clone(&self) -> Self {
        let mut slots = empty_slots();
        let mut i = 0;
        while i < SHIM_CAP {
            slots[i] = self.slots[i].clone();
            i += 1;
        }
        Self {
            slots,
            len: self.len,
            hash_builder: self.hash_builder.clone(),
        }
    }
}

impl<K, V, S> HashMap<K, V, S> {
    /// Empty map with the given hash builder.
    pub fn with_hasher(hash_builder: S) -> Self {
        Self {
            slots: empty_slots(),
            len: 0,
            hash_builder,
        }
    }
    /// Empty map with the given hash builder (capacity hint ignored).
    pub fn with_capacity_and_hasher(_cap: usize, hash_builder: S) -> Self {
        Self::with_hasher(hash_builder)
    }
    /// The hash builder.
    pub fn hasher(&self) -> &S {
        &self.hash_builder
    }
    /// Number of entries the map can hold (the model's fixed bound).
    pub fn capacity(&self) -> usize {
        SHIM_CAP
    }
    /// Number of entries.
    pub fn len(&self) -> usize {
        self.len
    }
    /// `len() == 0`.
    pub fn is_empty(&self) -> bool {
        self.len == 0
    }
    /// No-op.
    pub fn shrink_to_fit(&mut self) {}
    /// No-op.
    pub fn reserve(&mut self, _additional: usize) {}
    /// Removes every entry (dropping keys and values).
    pub fn clear(&mut self) {
        let mut i = 0;
        while i < SHIM_CAP {
            self.slots[i] = None;
            i += 1;
        }
        self.len = 0;
    }
    fn occupied(&self) -> [bool; SHIM_CAP] {
        let mut o = [false; SHIM_CAP];
        let mut i = 0;
        while i < SHIM_CAP {
            o[i] = self.slots[i].is_some();
            i += 1;
        }
        o
    }
    /// Entries in unspecified order.
    pub fn iter(&self) -> Iter<'_, K, V> {
        Iter {
            slots: &self.slots,
            occupied: self.occupied(),
            visited: [false; SHIM_CAP],
            left: self.len,
        }
    }
    /// Entries in unspecified order, values mutable.
    pub fn iter_mut(&mut self) -> IterMut<'_, K, V> {
        let occupied = self.occupied();
        let left = self.len;
        IterMut {
            slots: self.slots.each_mut(),
            occupied,
            visited: [false; SHIM_CAP],
            left,
        }
    }
    /// Keys in unspecified order.
    pub fn keys(&self) -> Keys<'_, K, V> {
        Keys { inner: self.iter() }
    }
    /// Values in unspecified order.
    pub fn values(&self) -> Values<'_, K, V> {
        Values { inner: self.iter() }
    }
    /// Values in unspecified order, mutable.
    pub fn values_mut(&mut self) -> ValuesMut<'_, K, V> {
        ValuesMut {
            inner: self.iter_mut(),
        }
    }
    /// Removes and yields every entry in unspecified order; the map is empty afterwards even if
    /// the iterator is dropped early.
    pub fn drain(&mut self) -> Drain<K, V> {
        let occupied = self.occupied();
        let left = self.len;
        self.len = 0;
        Drain {
            slots: core::mem::replace(&mut self.slots, empty_slots()),
            occupied,
            visited: [false; SHIM_CAP],
            left,
        }
    }
}

impl<K: Eq + Hash, V, S: BuildHasher> HashMap<K, V, S> {
    fn find<Q>(&self, q: &Q) -> Option<usize>
    where
        K: Borrow<Q>,
        Q: Hash + Eq + ?Sized,
    {
        // a real table hashes the probe key first
        let mut h = self.hash_builder.build_hasher();
        q.hash(&mut h);
        let _ = h.finish();
        let mut i = 0;
        while i < SHIM_CAP {
            if let Some((k, _)) = &self.slots[i] {
                if k.borrow() == q {
                    return Some(i);
                }
            }
            i += 1;
        }
        None
    }

    /// Lookup.
    pub fn get<Q>(&self, q: &Q) -> Option<&V>
    where
        K: Borrow<Q>,
        Q: Hash + Eq + ?Sized,
    {
        match self.find(q) {
            None => None,
            Some(i) => self.slots[i].as_ref().map(|(_, v)| v),
        }
    }
    /// Lookup of the stored pair.
    pub fn get_key_value<Q>(&self, q: &Q) -> Option<(&K, &V)>
    where
        K: Borrow<Q>,
        Q: Hash + Eq + ?Sized,
    {
        match self.find(q) {
            None => None,
            Some(i) => self.slots[i].as_ref().map(|(k, v)| (k, v)),
        }
    }
    /// Mutable lookup.
    pub fn get_mut<Q>(&mut self, q: &Q) -> Option<&mut V>
    where
        K: Borrow<Q>,
        Q: Hash + Eq + ?Sized,
    {
        match self.find(q) {
            None => None,
            Some(i) => self.slots[i].as_mut().map(|(_, v)| v),
        }
    }
    /// Membership.
    pub fn contains_key<Q>(&self, q: &Q) -> bool
    where
        K: Borrow<Q>,
        Q: Hash + Eq + ?Sized,
    {
        self.find(q).is_some()
    }
    /// Insert; an existing key keeps its stored key object and gets the new value (as in std).
    pub fn insert(&mut self, k: K, v: V) -> Option<V> {
        if let Some(i) = self.find(&k) {
            let slot = self.slots[i].as_mut().unwrap();
            return Some(core::mem::replace(&mut slot.1, v));
        }
        let mut i = 0;
        while i < SHIM_CAP {
            if self.slots[i].is_none() {
                self.slots[i] = Some((k, v));
                self.len += 1;
                return None;
            }
            i += 1;
        }
        panic!("SHIM_CAP exceeded: the verification bound of the hash-map model is too small");
    }
    /// Remove, returning the value.
    pub fn remove<Q>(&mut self, q: &Q) -> Option<V>
    where
        K: Borrow<Q>,
        Q: Hash + Eq + ?Sized,
    {
        self.remove_entry(q).map(|(_, v)| v)
    }
    /// Remove, returning the stored pair.
    pub fn remove_entry<Q>(&mut self, q: &Q) -> Option<(K, V)>
    where
        K: Borrow<Q>,
        Q: Hash + Eq + ?Sized,
    {
        match self.find(q) {
            None => None,
            Some(i) => {
                self.len -= 1;
                self.slots[i].take()
            }
        }
    }
}

impl<K: Eq + Hash, V, S: BuildHasher + Default> core::iter::FromIterator<(K, V)>
    for HashMap<K, V, S>
{
    fn from_iter<T: IntoIterator<Item = (K, V)>>(iter: T) -> Self {
        let mut m = Self::with_hasher(S::default());
        for (k, v) in iter {
            m.insert(k, v);
        }
        m
    }
}

impl<K: Eq + Hash, V, S: BuildHasher> Extend<(K, V)> for HashMap<K, V, S> {
    fn extend<T: IntoIterator<Item = (K, V)>>(&mut self, iter: T) {
        for (k, v) in iter {
            self.insert(k, v);
        }
    }
}

// ---------------------------------------------------------------------------------------------
// iterators

/// Borrowing iterator (unspecified order).
pub struct Iter<'a, K, V> {
    slots: &'a [Option<(K, V)>; SHIM_CAP],
    occupied: [bool; SHIM_CAP],
    visited: [bool; SHIM_CAP],
    left: usize,
}

impl<'a, K, V> Iterator for Iter<'a, K, V> {
    type Item = (&'a K, &'a V);
    fn next(&mut self) -> Option<Self::Item> {
        if self.left == 0 {
            return None;
        }
        let i = pick(&self.occupied, &self.visited);
        self.visited[i] = true;
        self.left -= 1;
        self.slots[i].as_ref().map(|(k, v)| (k, v))
    }
    fn size_hint(&self) -> (usize, Option<usize>) {
        (self.left, Some(self.left))
    }
}
impl<K, V> ExactSizeIterator for Iter<'_, K, V> {}

/// Borrowing iterator with mutable values (unspecified order).
pub struct IterMut<'a, K, V> {
    slots: [&'a mut Option<(K, V)>; SHIM_CAP],
    occupied: [bool; SHIM_CAP],
    visited: [bool; SHIM_CAP],
    left: usize,
}

impl<'a, K, V> Iterator for IterMut<'a, K, V> {
    type Item = (&'a K, &'a mut V);
    fn next(&mut self) -> Option<Self::Item> {
        if self.left == 0 {
            return None;
        }
        let i = pick(&self.occupied, &self.visited);
        self.visited[i] = true;
        self.left -= 1;
        // SAFETY: each slot is handed out at most once (visited[]), so the reborrow is unique.
        let slot: &'a mut Option<(K, V)> =
            unsafe { &mut *(self.slots[i] as *mut Option<(K, V)>) };
        slot.as_mut().map(|(k, v)| (&*k, v))
    }
    fn size_hint(&self) -> (usize, Option<usize>) {
        (self.left, Some(self.left))
    }
}
impl<K, V> ExactSizeIterator for IterMut<'_, K, V> {}

/// Keys (unspecified order).
pub struct Keys<'a, K, V> {
    inner: Iter<'a, K, V>,
}
impl<'a, K, V> Iterator for Keys<'a, K, V> {
    type Item = &'a K;
    fn next(&mut self) -> Option<&'a K> {
        self.inner.next().map(|(k, _)| k)
    }
    fn size_hint(&self) -> (usize, Option<usize>) {
        self.inner.size_hint()
    }
}

/// Values (unspecified order).
pub struct Values<'a, K, V> {
    inner: Iter<'a, K, V>,
}
impl<'a, K, V> Iterator for Values<'a, K, V> {
    type Item = &'a V;
    fn next(&mut self) -> Option<&'a V> {
        self.inner.next().map(|(_, v)| v)
    }
    fn size_hint(&self) -> (usize, Option<usize>) {
        self.inner.size_hint()
    }
}

/// Mutable values (unspecified order).
pub struct ValuesMut<'a, K, V> {
    inner: IterMut<'a, K, V>,
}
impl<'a, K, V> Iterator for ValuesMut<'a, K, V> {
    type Item = &'a mut V;
    fn next(&mut self) -> Option<&'a mut V> {
        self.inner.next().map(|(_, v)| v)
    }
    fn size_hint(&self) -> (usize, Option<usize>) {
        self.inner.size_hint()
    }
}

/// Draining / owning iterator (unspecified order).
pub struct Drain<K, V> {
    slots: [Option<(K, V)>; SHIM_CAP],
    occupied: [bool; SHIM_CAP],
    visited: [bool; SHIM_CAP],
    left: usize,
}

impl<K, V> Iterator for Drain<K, V> {
    type Item = (K, V);
    fn next(&mut self) -> Option<(K, V)> {
        if self.left == 0 {
            return None;
        }
        let i = pick(&self.occupied, &self.visited);
        self.visited[i] = true;
        self.left -= 1;
        self.slots[i].take()
    }
    fn size_hint(&self) -> (usize, Option<usize>) {
        (self.left, Some(self.left))
    }
}
impl<K, V> ExactSizeIterator for Drain<K, V> {}

/// Owning iterator.
pub type IntoIter<K, V> = Drain<K, V>;

impl<'a, K, V, S> IntoIterator for &'a HashMap<K, V, S> {
    type Item = (&'a K, &'a V);
    type IntoIter = Iter<'a, K, V>;
    fn into_iter(self) -> Iter<'a, K, V> {
        self.iter()
    }
}

impl<'a, K, V, S> IntoIterator for &'a mut HashMap<K, V, S> {
    type Item = (&'a K, &'a mut V);
    type IntoIter = IterMut<'a, K, V>;
    fn into_iter(self) -> IterMut<'a, K, V> {
        self.iter_mut()
    }
}

impl<K, V, S> IntoIterator for HashMap<K, V, S> {
    type Item = (K, V);
    type IntoIter = Drain<K, V>;
    fn into_iter(mut self) -> Drain<K, V> {
        self.drain()
    }
}

// ---------------------------------------------------------------------------------------------
// set

/// Contract model of `hashbrown::HashSet` (only what `From<HashSet<_>>` needs).
pub struct HashSet<T, S = DefaultHashBuilder> {
    map: HashMap<T, (), S>,
}

impl<T> HashSet<T, DefaultHashBuilder> {
    /// Empty set.
    pub fn new() -> Self {
        Self {
            map: HashMap::new(),
        }
    }
}

impl<T, S: Default> Default for HashSet<T, S> {
    fn default() -> Self {
        Self {
            map: HashMap::default(),
        }
    }
}

impl<T, S> HashSet<T, S> {
    /// Number of elements.
    pub fn len(&self) -> usize {
        self.map.len()
    }
    /// `len() == 0`.
    pub fn is_empty(&self) -> bool {
        self.map.is_empty()
    }
}

impl<T: Eq + Hash, S: BuildHasher> HashSet<T, S> {
    /// Insert; true when newly inserted.
    pub fn insert(&mut self, t: T) -> bool {
        if self.map.contains_key(&t) {
            false
        } else {
            self.map.insert(t, ());
            true
        }
    }
    /// Membership.
    pub fn contains<Q>(&self, q: &Q) -> bool
    where
        T: Borrow<Q>,
        Q: Hash + Eq + ?Sized,
    {
        self.map.contains_key(q)
    }
}

/// Owning set iterator.
pub struct SetIntoIter<T> {
    inner: Drain<T, ()>,
}
impl<T> Iterator for SetIntoIter<T> {
    type Item = T;
    fn next(&mut self) -> Option<T> {
        self.inner.next().map(|(t, _)| t)
    }
    fn size_hint(&self) -> (usize, Option<usize>) {
        self.inner.size_hint()
    }
}

impl<T, S> IntoIterator for HashSet<T, S> {
    type Item = T;
    type IntoIter = SetIntoIter<T>;
    fn into_iter(self) -> SetIntoIter<T> {
        SetIntoIter {
            inner: self.map.into_iter(),
        }
    }
}

impl<T: Eq + Hash, S: BuildHasher + Default> core::iter::FromIterator<T> for HashSet<T, S> {
    fn from_iter<I: IntoIterator<Item = T>>(iter: I) -> Self {
        let mut s = Self::default();
        for t in iter {
            s.insert(t);
        }
        s
    }
}

/// `hashbrown::hash_map` module paths used by downstream code.
pub mod hash_map {
    pub use super::{DefaultHashBuilder, Drain, HashMap, IntoIter, Iter, IterMut, Keys, Values};
}
/// `hashbrown::hash_set` module paths.
pub mod hash_set {
    pub use super::HashSet;
}
