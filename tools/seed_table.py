#!/usr/bin/env python3
"""Builds the 'which check catches which seeded change' table of DESIGN.md §0.8 from
.work/seed_results_<tier>.txt and seeded/*/meta.json."""
import json, glob, os, re, sys
root = os.path.dirname(os.path.dirname(os.path.abspath(__file__)))
res = {}
for tier in ("quick", "thorough"):
    p = os.path.join(root, ".work", "seed_results_%s.txt" % tier)
    if not os.path.exists(p):
        continue
    for l in open(p):
        m = re.match(r"((?:s|fix)-\S+) property=(\S+) tier=(\S+) rc=(\d+) violations=(\d+) wall=(\d+)s :: (.*)", l)
        if m:
            res.setdefault(m.group(1), {})[tier] = (int(m.group(4)), m.group(7).strip())
rows = ["| seed | property | change (as described by its author) | needs | quick check of that property | caught by |", "|---|---|---|---|---|---|"]
for d in sorted(glob.glob(os.path.join(root, "seeded", "s-*")) + glob.glob(os.path.join(root, "seeded", "fix-*"))):
    sid = os.path.basename(d)
    m = json.load(open(os.path.join(d, "meta.json")))
    r = res.get(sid, {})
    q = r.get("quick")
    t = r.get("thorough")
    verdict = "not run"
    by = ""
    if q:
        verdict = "VIOLATION (exit 1)" if q[0] == 1 else ("missed (exit 0)" if q[0] == 0 else "inconclusive (exit 2)")
        hs = re.findall(r"harness=(\S+) check=(\"[^\"]*\"|\S+)", q[1])
        by = "; ".join("%s — %s" % (h, c.strip('"')[:70]) for h, c in hs[:2])
    if t and (not q or q[0] != 1):
        verdict += "; thorough: " + ("VIOLATION" if t[0] == 1 else "missed" if t[0] == 0 else "inconclusive")
    summ = (m.get("summary") or "").replace("|", "/").replace("\n", " ")[:160]
    needs = (m.get("needs") or "").replace("|", "/").replace("\n", " ")[:120]
    rows.append("| %s | %s | %s | %s | %s | %s |" % (sid, m.get("property"), summ, needs, verdict, by.replace("|", "/")))
print("\n".join(rows))
