"""setup_cmd: validates the hash-map contract model against the repository's own test suite
(natively, no_std configuration) and warms the Kani build directories.  Offline, files on disk only."""
import os, sys, subprocess, shutil, re

ROOT = os.path.dirname(os.path.abspath(__file__))
WORK = os.path.join(ROOT, ".work")
REPO = os.environ.get("VERIF_REPO", "/repo")


def main():
    os.makedirs(WORK, exist_ok=True)
    env = dict(os.environ, CARGO_NET_OFFLINE="true", SHIM_CAP="1024")
    scratch = os.path.join(WORK, "shimtest")
    shutil.rmtree(scratch, ignore_errors=True)
    subprocess.check_call(["rsync", "-a", "--exclude", "target", "--exclude", ".git", REPO + "/", scratch + "/"])
    ok = True
    for order in ("0", "1", "7"):
        e = dict(env, SHIM_ORDER=order)
        r = subprocess.run(["cargo", "test", "--offline", "--lib", "--no-default-features", "--features",
                            "hashbrown,libm,verif-hooks", "--config",
                            'patch.crates-io.hashbrown.path="%s"' % os.path.join(ROOT, "shim", "hashbrown")],
                           cwd=scratch, env=e, stdout=subprocess.PIPE, stderr=subprocess.STDOUT, text=True)
        m = re.search(r"test result: (\w+)\. (\d+) passed; (\d+) failed", r.stdout)
        print("[setup] repository lib tests (no_std cfg) against the hash-map contract model, order=%s: %s" % (
            order, m.group(0) if m else "NO RESULT"))
        if not m or m.group(1) != "ok" or int(m.group(2)) < 60:
            print(r.stdout[-3000:])
            ok = False
    shutil.rmtree(scratch, ignore_errors=True)
    # warm the kani build (dependencies + harness crate type-check)
    for cap in (3,):
        e = dict(env, SHIM_CAP=str(cap))
        r = subprocess.run(["cargo", "kani", "--only-codegen", "--no-assertion-reach-checks", "--target-dir",
                            os.path.join(WORK, "t_nostd_cap%d_0" % cap), "--harness", "h_raw::ctor"],
                           cwd=os.path.join(ROOT, "harness"), env=e, stdout=subprocess.PIPE,
                           stderr=subprocess.STDOUT, text=True)
        print("[setup] kani codegen warm-up cap=%d: rc=%d" % (cap, r.returncode))
        if r.returncode != 0:
            print(r.stdout[-3000:])
            ok = False
    return 0 if ok else 1
