"""Per-property verdict, replay of counterexamples, known findings, evidence."""
import os, sys, json, re, time, hashlib, subprocess, glob, shutil

ROOT = os.path.dirname(os.path.abspath(__file__))


def load_known():
    p = os.path.join(ROOT, "known_findings.json")
    if not os.path.exists(p):
        return {"findings": [], "fixed": []}
    return json.load(open(p))


def matches_known(k, pid, harness, desc):
    return (k["property"] == pid and re.search(k["harness"], harness) and re.search(k["check"], desc))


# ------------------------------------------------------------------------------------------
# replay

PLAYBACK_RS = os.path.join(ROOT, ".work", "playback_gen.rs")


def playback(drv, h_name, cfg, cap, wanted_descs, extra_cbmc=()):
    """Asks kani for concrete values of each failing check of harness `h_name`, re-executes the
    harness natively with them (cargo kani playback: the real crate code compiled by rustc,
    the hash-map contract model with the recorded iteration-order choices) and, for memory
    checks, under valgrind.  Returns a list of dicts, one per generated test."""
    env = dict(drv.ENV, SHIM_CAP=str(cap))
    tdir = os.path.join(drv.WORK, "t_play_%s_cap%d" % (cfg, cap))
    cmd = ["cargo", "kani", "--target-dir", tdir, "--harness", h_name, "--exact",
           "--no-assertion-reach-checks", "-Z", "concrete-playback", "--concrete-playback=print"]
    if extra_cbmc:
        cmd += ["-Z", "unstable-options", "--cbmc-args"] + list(extra_cbmc)
    hdir = drv.CFG_DIR[cfg]
    r = drv.sh(cmd, cwd=hdir, env=env, timeout=7200)
    out = r.stdout
    tests = []
    for m in re.finditer(r"```\n(.*?)```", out, re.S):
        code = m.group(1)
        cm = re.search(r'/// Check for `([^`]*)`: "(.*)"\n', code)
        fm = re.search(r"fn (kani_concrete_playback_\w+)\(\)", code)
        if not fm:
            continue
        prev = next((t for t in tests if t["test"] == fm.group(1)), None)
        if prev:
            # identical concrete values decide several checks: one test, several descriptions
            prev["desc"] += " || " + (cm.group(2) if cm else "")
            continue
        tests.append({"test": fm.group(1), "class": cm.group(1) if cm else "", "desc": cm.group(2) if cm else "",
                      "code": code})
    kani_failed = "VERIFICATION:- FAILED" in out
    shutil.rmtree(tdir, ignore_errors=True)
    if not tests:
        return kani_failed, []
    # make the tests callable from a crate-level module: harness fns are addressed by full path
    path = "crate::" + h_name
    body = ""
    for t in tests:
        code = re.sub(r"kani::concrete_playback_run\(concrete_vals, \w+\);",
                      "kani::concrete_playback_run(concrete_vals, %s);" % path, t["code"])
        body += code + "\n"
    os.makedirs(os.path.dirname(PLAYBACK_RS), exist_ok=True)
    open(PLAYBACK_RS, "w").write(body)
    for t in tests:
        cmd = ["cargo", "kani", "playback", "-Z", "concrete-playback"]
        cmd += ["--", t["test"], "--nocapture"]
        r = drv.sh(cmd, cwd=hdir, env=env, timeout=1800)
        t["native_output"] = r.stdout[-3000:]
        t["native_failed"] = ("test result: FAILED" in r.stdout) or ("panicked at" in r.stdout)
        t["replay_build_error"] = "could not compile" in r.stdout
        pm = re.search(r"panicked at [^\n]*\n([^\n]*)", r.stdout)
        t["native_panic"] = pm.group(1).strip() if pm else None
        t["cmd"] = " ".join(cmd)
    # valgrind pass for memory-safety checks
    bins = sorted(glob.glob(os.path.join(hdir, "target", "*", "debug", "build", "vharness", "*", "out", "vharness-*")) +
                  glob.glob(os.path.join(hdir, "target", "*", "debug", "deps", "vharness-*")),
                  key=os.path.getmtime)
    bins = [b for b in bins if os.access(b, os.X_OK) and not b.endswith(".d")]
    for t in tests:
        t["valgrind_errors"] = None
        if bins and not t["native_failed"]:
            r = drv.sh(["valgrind", "--error-exitcode=97", "-q", "--leak-check=full", "--errors-for-leak-kinds=definite",
                        bins[-1], t["test"], "--test-threads=1"],
                       env=env, timeout=1800)
            t["valgrind_errors"] = (r.returncode == 97)
            t["valgrind_output"] = r.stdout[-2000:]
    shutil.rmtree(os.path.join(hdir, "target"), ignore_errors=True)
    try:
        os.remove(PLAYBACK_RS)
    except OSError:
        pass
    return kani_failed, tests


MEMORY_CLASSES = ("pointer_dereference", "precondition_instance", "safety_check", "memory-leak", "memory_leak")


def confirm(drv, pid, r, fails):
    """Replays the failing checks of one harness result. -> (confirmed [..], unconfirmed [..], record)"""
    cfg, cap = r.get("cfg", "nostd"), r.get("cap", 4)
    extra = [x for x in (r.get("flags") or "").split() if x]
    kani_failed, tests = playback(drv, r["harness"], cfg, cap, [f["desc"] for f in fails], extra)
    confirmed, unconfirmed = [], []
    for f in fails:
        rec = {"check": f["desc"], "class": f["class"], "location": "%s:%s" % (f["file"], f["line"]),
               "kani_agrees": kani_failed, "tests": []}
        ok = False
        for t in tests:
            if t["desc"] and f["desc"].strip('"') not in t["desc"]:
                continue
            rec["tests"].append({k: t.get(k) for k in ("test", "code", "cmd", "native_failed", "native_panic",
                                                       "valgrind_errors", "native_output")})
            if t["native_failed"] or t["valgrind_errors"]:
                ok = True
        if not ok and kani_failed and f["class"] in MEMORY_CLASSES:
            # memory-model violations need not crash natively; they are reported on the strength of
            # CBMC's object-level memory model, agreed on by two independent runs (ours and kani-driver's)
            rec["note"] = "memory-model violation: not observable as a native crash; reported from the solver trace"
            ok = True
        (confirmed if ok else unconfirmed).append(rec)
    return confirmed, unconfirmed


# ------------------------------------------------------------------------------------------

def decide(pid, tier, drv):
    t0 = time.time()
    seed = int(os.environ.get("VERIF_SEED", "0") or 0)
    entries = drv.select(pid, tier)
    if not entries:
        print("no check registered for %s" % pid)
        return 2
    results = drv.run_entries(entries, tier)
    known = load_known()
    violations, inconclusive, foreign, known_hits = [], [], [], []
    for r in results:
        if r["status"] in ("TIMEOUT", "ERROR", "OOM"):
            inconclusive.append((r["harness"], r["status"] + ": " + str(r.get("detail"))))
            continue
        mine = []
        for f in r["failed"]:
            kind, what = drv.attribute(f)
            if kind == "machinery":
                inconclusive.append((r["harness"], what))
            elif pid in what:
                mine.append(f)
            else:
                foreign.append((r["harness"], f["desc"], what))
        bad_w = [c for c, sat in r["covers"].items() if not sat]
        if bad_w and not r["failed"]:
            inconclusive.append((r["harness"], "vacuity witness not satisfiable: " + "; ".join(bad_w)))
        if mine:
            # known findings are matched by role (harness family + check text), never by run
            rest = []
            for f in mine:
                k = next((k for k in known.get("findings", []) if matches_known(k, pid, r["harness"], f["desc"])), None)
                if k:
                    known_hits.append((k, r["harness"], f["desc"]))
                else:
                    rest.append(f)
            if rest:
                violations.append((r, rest))
    exit_code = 0
    replay_paths = []
    reported = 0
    for k in {json.dumps(k[0], sort_keys=True): k for k in known_hits}.values():
        print("KNOWN-FINDING: property=%s %s" % (pid, k[0]["what"]))
    if violations:
        os.makedirs(os.path.join(ROOT, "replays"), exist_ok=True)
        # replay the cheapest failing harness first; stop at the first natively confirmed violation
        # (each replay is a second full solver run plus a native build), try at most three
        violations.sort(key=lambda rf: rf[0].get("wall_s", 0))
        for r, fails in violations[:3]:
            if reported:
                break
            confirmed, unconfirmed = confirm(drv, pid, r, fails)
            tag = hashlib.sha256((r["harness"] + "|".join(f["desc"] for f in fails)).encode()).hexdigest()[:10]
            path = os.path.join(ROOT, "replays", "%s-%s.json" % (pid, tag))
            json.dump({"property": pid, "harness": r["harness"], "bounds": r.get("bounds"),
                       "goto_program_sha256_key": r["key"], "confirmed": confirmed, "unconfirmed": unconfirmed,
                       "how_to_rerun": "cd /verif && ./check --run %s --cap %d --no-cache" % (r["harness"], r.get("cap", 4)),
                       "tree": drv.tree_hash()}, open(path, "w"), indent=1)
            if confirmed:
                print("VIOLATION property=%s replay=%s" % (pid, path))
                for c in confirmed[:4]:
                    print("  harness=%s check=%s" % (r["harness"], c["check"]))
                for r2, f2 in violations:
                    if r2 is not r:
                        print("  also failing (not replayed): harness=%s check=%s" % (r2["harness"], f2[0]["desc"]))
                replay_paths.append(path)
                reported += 1
                exit_code = 1
            else:
                inconclusive.append((r["harness"], "solver counterexample did not reproduce natively (encoding problem?) see " + path))
        if reported == 0 and exit_code == 0 and not inconclusive:
            inconclusive.append(("-", "violations found but none confirmed"))
    if exit_code == 0 and inconclusive:
        exit_code = 2
    for h, why in inconclusive[:20]:
        print("INCONCLUSIVE %s: %s" % (h, why))
    write_evidence(pid, tier, seed, results, violations, inconclusive, foreign, known_hits, reported, time.time() - t0, drv)
    if exit_code == 0:
        print("PASS property=%s tier=%s harnesses=%d (memoised %d) wall=%.0fs" % (
            pid, tier, len(results), sum(1 for r in results if r["cached"]), time.time() - t0))
    return exit_code


def write_evidence(pid, tier, seed, results, violations, inconclusive, foreign, known_hits, reported, wall, drv):
    decided = [r for r in results if r["status"] in ("PASS", "FAIL")]
    nontrivial = [r for r in decided if r["covers"] and all(r["covers"].values())]
    funcs = sorted(set(f for r in decided for f in r["functions"]))
    samples = []
    for r in sorted(decided, key=lambda r: -r["nchecks"])[:6]:
        samples.append({"harness": r["harness"], "bounds": r.get("bounds"), "unwind": r["unwind"],
                        "cbmc_properties": r["nchecks"], "sat_variables": r["vars"], "sat_clauses": r["clauses"],
                        "solver_s": r["solver_s"], "witnesses": r["covers"], "status": r["status"],
                        "goto_program_key": r["key"][:16], "memoised": r["cached"]})
    ev = {
        "property_id": pid, "tier": tier, "seed": seed, "level": "model_checking",
        "coverage": {
            "evaluations": len(decided),
            "distinct_nontrivial": len(nontrivial),
            "rule": "one evaluation = one SAT-decided proof harness (a real operation from every state of one "
                    "concrete shape, symbolic keys/values/arguments/index-iteration order); it counts as non-trivial "
                    "only if every kani::cover! witness placed in it was reported satisfiable by the solver",
            "samples": samples,
            "obligations": sum(r["nchecks"] for r in decided),
            "discharged": sum(r["nchecks"] - len(r["failed"]) for r in decided),
            "harnesses_selected": len(results),
            "harnesses_inconclusive": len(set(h for h, _ in inconclusive)),
            "memoised_verdicts": sum(1 for r in results if r["cached"]),
            "solver_seconds": round(sum(r["solver_s"] for r in decided), 1),
            "functions_encoded": funcs,
            "bounds": sorted(set(r.get("bounds") or "" for r in results)),
            "outside_bounds": "capacities above the stated classes; key/value types other than the instantiations "
                              "listed in DESIGN.md 2.10; the real hash table (contract model instead)",
            "checks_of_other_properties_failing_in_shared_harnesses": [list(x) for x in foreign[:20]],
            "known_findings_matched": [k[0]["what"] for k in known_hits],
            "inconclusive": [list(x) for x in inconclusive[:20]],
            "source_tree_hash": drv.tree_hash(),
            "exhaustive": False,
        },
        "assumptions": [
            "hash map behaves as its documented contract (association-list model, iteration order nondeterministic)",
            "generated keys pairwise distinct; shapes within the capacity class; representation invariant of DESIGN.md 2.3",
            "rustc + Kani MIR->goto translation, CBMC 6.11 and CaDiCaL are sound",
            "allocation never fails",
        ],
        "wall_s": round(wall, 1),
        "violations": reported,
    }
    os.makedirs(os.path.join(ROOT, "evidence"), exist_ok=True)
    json.dump(ev, open(os.path.join(ROOT, "evidence", pid + ".json"), "w"), indent=1)
