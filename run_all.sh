#!/bin/bash
# runs every claimed property's check at the given tier, sequentially; summary in .work/run_all_<tier>.log
tier=${1:-quick}
cd /verif
log=.work/run_all_$tier.log
: > $log
for p in C06 C07 C08 C09 C10 C11 C20 C14 C15 C16 C17 C04 C05 C01 C02 C03 C12 C13; do
  s=$(date +%s)
  ./check $p --tier $tier > .work/run_$p.$tier.log 2>&1
  rc=$?
  e=$(date +%s)
  echo "$p rc=$rc wall=$((e-s))s $(grep -E '^(PASS|VIOLATION|INCONCLUSIVE|KNOWN)' .work/run_$p.$tier.log | head -3 | tr '\n' '|')" >> $log
done
echo DONE >> $log
