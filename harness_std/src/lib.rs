//! std-configuration twin of the harness crate: the TinyLFU harnesses (which touch no hash map)
//! compiled against the crate's default `std` feature, i.e. over `count_min_sketch_std` with its
//! four seeds symbolic.
#![allow(dead_code)]
#![allow(unused_imports)]
extern crate alloc;

#[cfg(kani)]
#[macro_use]
#[path = "../../harness/src/macros_only.rs"]
pub mod util;
#[cfg(kani)]
#[path = "../../harness/src/h_tlfu.rs"]
pub(crate) mod h_tlfu;

#[cfg(all(kani, test))]
mod playback_gen {
    include!(concat!(env!("CARGO_MANIFEST_DIR"), "/../.work/playback_gen.rs"));
}
