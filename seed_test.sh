#!/bin/bash
# applies every seeded change to /repo in turn, runs the check of the property it breaks, undoes it.
# usage: seed_test.sh [tier] [seed ...]
cd /verif
tier=${1:-quick}; shift
seeds=${@:-$(ls seeded)}
out=.work/seed_results_$tier.txt
for s in $seeds; do
  pid=$(python3 -c "import json;print(json.load(open('seeded/$s/meta.json'))['property'])")
  if ! git -C /repo diff --quiet; then echo "/repo dirty, abort"; exit 1; fi
  git -C /repo apply /verif/seeded/$s/patch.diff || { echo "$s: patch does not apply" | tee -a $out; continue; }
  st=$(date +%s)
  ./check $pid --tier $tier > .work/seed_$s.$tier.log 2>&1; rc=$?
  en=$(date +%s)
  git -C /repo checkout -- .
  v=$(grep -c '^VIOLATION' .work/seed_$s.$tier.log)
  echo "$s property=$pid tier=$tier rc=$rc violations=$v wall=$((en-st))s :: $(grep -E '^  harness=' .work/seed_$s.$tier.log | head -2 | tr '\n' ' ')" | tee -a $out
done
